"""C14 (queuer slice): with queuer routing no job waits in the factory queue while a worker sits idle - as an inductive invariant over factory steps.

    Q:  (a) the router's available-workers deque has no duplicates and its flag vector says exactly which workers are in it
        (b) every worker of the pool that is available (idle, nothing queued) and not draining is in the deque
        (c) if the factory queue holds a job, no such worker exists

`FactoryState::dispatch` and `FactoryState::worker_finished_job` are run on MIR with the *real* `QueuerRouting` plugged in behind the `TRouter` calls
(route_message, choose_target_worker, on_worker_availability_change, is_factory_queueing) and real worker records, from every state over workers 0..2
(idle / busy), every deque that satisfies Q (any order, stale entries of busy workers allowed), a factory queue of 0..2 jobs: Q holds again afterwards,
and a job is only put into (or left in) the factory queue when no worker could take it."""
import itertools
import re
import z3

import models_std
import lifeprops as lp
import C13
import C14_books as books
import C15_pool as cp
from exec import State, Outcome, Inconclusive, Unmodelled
from values import *

ROUTER_TY = 'QueuerRouting'
FS = 'FactoryState::<TKey, TMsg, TWorker, TWorkerStart, TRouter, TQueue>::'


def new_interp(prog, router_ty, pool_models=False):
    I = cp.new_interp(prog) if pool_models else C13.factory_interp(prog)
    for meth in ('route_message', 'choose_target_worker', 'on_worker_availability_change', 'is_factory_queueing'):
        body = prog.find_fn('<%s<TKey, TMsg> as Router<TKey, TMsg>>::%s' % (router_ty, meth)) or prog.find_fn('<%s as Router>::%s' % (router_ty, meth))
        if body is None:
            raise Inconclusive('%s::%s not found' % (router_ty, meth))

        def real(I, st, f, args, fr, body=body):
            I.stats['calls_inlined'].add(body.name)
            return I.run_body(st, body, args)
        I.override.append((re.compile(r'^<TRouter as (factory::)?(routing::)?Router<.*>>::%s$' % meth), real))
    return I


def states(tier):
    """(busy workers, deque, factory queue length) satisfying Q over workers 0..2"""
    out = []
    for busy in itertools.chain.from_iterable(itertools.combinations(range(3), r) for r in range(4)):
        idle = [w for w in range(3) if w not in busy]
        # deque: a permutation of idle workers plus any subset of busy ones (stale entries) in any position - sampled: idle perm + stale appended / prepended
        for perm in itertools.permutations(idle):
            for stale in ([], list(busy)[:1]):
                for front in (False, True):
                    if not stale and front:
                        continue
                    dq = (stale + list(perm)) if front else (list(perm) + stale)
                    for qn in ((0,) if idle else (0, 1, 2)):
                        out.append((tuple(busy), tuple(dq), qn))
    if tier == 'quick':
        out = [s for i, s in enumerate(out) if i % 2 == 0 or len(s[0]) >= 2]
    return out


def mk_state(prog, I, st, router_ty, busy, dq, qn):
    d = prog.crate.struct('FactoryState')
    dw = prog.crate.struct('WorkerProperties')
    rd = prog.crate.struct(router_ty)
    fv = cp.mk_state(prog, I, st, 3, ('live', 'live', 'live', None), busy_live=busy)
    ff = list(fv.fields)
    rf = {'_key': Agg('PhantomData', ()), '_msg': Agg('PhantomData', ()), 'available_workers': Agg('VecDeque', [I.mk_int(w, 'usize') for w in dq]),
          'worker_in_queue': Agg('Vec', [z3.BoolVal(w in dq) for w in range(3)])}
    ff[d['fields'].index('router')] = Agg(router_ty, [rf[n] for n in rd['fields']])
    ff[d['fields'].index('queue')] = Agg('VecDeque', [books.mk_job(prog, 6, 'f%d' % i) for i in range(qn)])
    ff[d['fields'].index('discard_settings')] = Enum('DiscardSettings', 'None', 0, ())
    ff[d['fields'].index('discard_handler')] = models_std.NONE
    ff[d['fields'].index('drain_state')] = Enum('DrainState', 'NotDraining', 0, ())
    return Agg('FactoryState', ff)


def read_state(prog, I, st, fc, router_ty):
    d = prog.crate.struct('FactoryState')
    dw = prog.crate.struct('WorkerProperties')
    rd = prog.crate.struct(router_ty)
    fa = I.read(st, fc, ())
    rv = fa.fields[d['fields'].index('router')]
    dq = [x.concrete() for x in rv.fields[rd['fields'].index('available_workers')].fields]
    fl = [z3.is_true(z3.simplify(b)) for b in rv.fields[rd['fields'].index('worker_in_queue')].fields]
    pool = {}
    for e in fa.fields[d['fields'].index('pool')].fields:
        w = e.fields[1]
        wid = z3.simplify(e.fields[0].t).as_long()
        pool[wid] = {'idle': len(w.fields[dw['fields'].index('curr_jobs')].fields) == 0 and len(w.fields[dw['fields'].index('message_queue')].fields) == 0,
                     'draining': z3.is_true(z3.simplify(w.fields[dw['fields'].index('is_draining')]))}
    qlen = len(fa.fields[d['fields'].index('queue')].fields)
    return dq, fl, pool, qlen


def inv_claims(dq, fl, pool, qlen):
    avail = [w for w, v in pool.items() if v['idle'] and not v['draining']]
    # (removal from the deque is lazy: an entry whose flag was cleared is stale and skipped when popped, so stale entries and repeated ids are part of the design)
    return {'flagged_workers_are_in_the_deque': all(w in dq for w in range(len(fl)) if fl[w]),
            'every_available_worker_is_known_to_the_router': all(w in dq for w in avail),
            'no_job_waits_in_the_factory_queue_while_a_worker_is_idle': qlen == 0 or not avail}


def check(ctx, prog, router_ty=ROUTER_TY):
    bodies = {}
    for op in ('dispatch', 'worker_finished_job'):
        b = prog.find_fn(FS + op)
        if b is None:
            raise Inconclusive(op + ' not found')
        bodies[op] = b
        ctx.encoded(prog, b)
    for meth in ('route_message', 'choose_target_worker', 'on_worker_availability_change'):
        b = prog.find_fn('<%s<TKey, TMsg> as Router<TKey, TMsg>>::%s' % (router_ty, meth)) or prog.find_fn('<%s as Router>::%s' % (router_ty, meth))
        if b is not None:
            ctx.encoded(prog, b)
    seen = set()
    tag0 = 'queuer_hist' if router_ty == 'QueuerRouting' else 'sticky_hist'
    for (busy, dq, qn) in states(ctx.tier):
        ops = [('dispatch', None)] + [('worker_finished_job', w) for w in busy]
        for op, w in ops:
            I = new_interp(prog, router_ty)
            st = State()
            fc = st.alloc(mk_state(prog, I, st, router_ty, busy, dq, qn))
            if op == 'dispatch':
                args = [Ref(fc, (), True), books.mk_job(prog, 6, 'new')]
            else:
                args = [Ref(fc, (), True), I.mk_int(w, 'usize'), books.key(5)]
            outs = I.run_body(st, bodies[op], args)
            ctx.absorb(I)
            ctx.paths += len(outs)
            for k, o in enumerate(outs):
                name = '%s.busy%s.dq%s.q%d.%s%s.path%d' % (tag0, ''.join(map(str, busy)) or '-', ''.join(map(str, dq)) or '-', qn, op, '' if w is None else str(w), k)
                rp = {'router': router_ty, 'busy': list(busy), 'deque': list(dq), 'queue': qn, 'op': op, 'w': w}
                cex = (lambda rp=rp: (lambda m: replay(rp)))()
                if o.kind != 'ret':
                    lp.record(ctx, name, o.st, {'step_completes_without_panic': False}, 'C14.' + tag0, on_cex=cex)
                    continue
                dq2, fl2, pool2, qlen2 = read_state(prog, I, o.st, fc, router_ty)
                claims = inv_claims(dq2, fl2, pool2, qlen2)
                if qlen2:
                    seen.add('backlog')
                if op == 'worker_finished_job' and qn and qlen2 < qn:
                    seen.add('queued_job_goes_to_the_freed_worker')
                if op == 'dispatch' and qlen2 == qn:
                    seen.add('dispatched_to_an_idle_worker')
                lp.record(ctx, name, o.st, claims, 'C14.' + tag0, on_cex=cex)
    # worker death as the factory handles it, and pool resizes (coroutines: a worker is spawned)
    import lifecycle as lc
    sup_fn = '<Factory<TKey, TMsg, TWorkerStart, TWorker, TRouter, TQueue> as Actor>::handle_supervisor_evt'
    if prog.find_fn(sup_fn) is None or prog.find_fn(cp.RESIZE) is None:
        raise Inconclusive('handle_supervisor_evt / resize_pool not found')
    for (busy, dq, qn) in states(ctx.tier):
        steps = [('death', w) for w in range(3)] + [('resize', n) for n in (2, 4)]
        for op, arg in steps:
            I = new_interp(prog, router_ty, pool_models=True)
            st = State()
            fc = st.alloc(mk_state(prog, I, st, router_ty, busy, dq, qn))
            if op == 'death':
                cell = Agg('ActorCell', (Opaque('props', ident='actor%d' % arg),))
                ev = Enum('SupervisionEvent', 'ActorFailed', 2, (cell, Opaque('err')))
                st, coro = lc.make_coro(I, st, prog, sup_fn, [Ref(st.alloc(Opaque('Factory')), ()), cp.actor_ref('myself'), ev, Ref(fc, (), True)])
            else:
                st, coro = lc.make_coro(I, st, prog, cp.RESIZE, [Ref(fc, (), True), Ref(st.alloc(cp.actor_ref('myself')), ()), I.mk_int(arg, 'usize')])
            cc = st.alloc(coro)
            frontier, done = [(st, 0)], []
            while frontier:
                s, n = frontier.pop()
                for o in lc.poll_coro(I, s, cc):
                    if o.kind != 'ret' or o.val.variant == 'Ready':
                        done.append(o)
                    elif n < 6:
                        frontier.append((o.st, n + 1))
                    else:
                        raise Inconclusive('%s did not complete within 6 polls' % op)
            ctx.absorb(I)
            ctx.paths += len(done)
            for k, o in enumerate(done):
                name = '%s.busy%s.dq%s.q%d.%s%d.path%d' % (tag0, ''.join(map(str, busy)) or '-', ''.join(map(str, dq)) or '-', qn, op, arg, k)
                rp = {'router': router_ty, 'busy': list(busy), 'deque': list(dq), 'queue': qn, 'op': op, 'w': arg}
                cex = (lambda rp=rp: (lambda m: replay(rp)))()
                if o.kind != 'ret':
                    lp.record(ctx, name, o.st, {'step_completes_without_panic': False}, 'C14.' + tag0, on_cex=cex)
                    continue
                if o.val.fields[0].variant == 'Err':
                    lp.record(ctx, name, o.st, {'step_fails_only_when_a_spawn_failed': any(e[0] == 'SPAWN_FAILED' for e in o.st.trace)}, 'C14.' + tag0, on_cex=cex)
                    continue
                dq2, fl2, pool2, qlen2 = read_state(prog, I, o.st, fc, router_ty)
                lp.record(ctx, name, o.st, inv_claims(dq2, fl2, pool2, qlen2), 'C14.' + tag0, on_cex=cex)
                seen.add('death' if op == 'death' else 'resize')
    for w_ in ('backlog', 'queued_job_goes_to_the_freed_worker', 'dispatched_to_an_idle_worker', 'death', 'resize'):
        ctx.note_witness('C14.%s.%s' % (tag0, w_), w_ in seen)
    ctx.bounds[tag0] = 'FactoryState::dispatch / worker_finished_job with the real %s, workers 0..2 idle or busy, every deque order over the idle workers with at most one stale entry, factory queue 0..2 jobs' % router_ty


def replay(rp):
    import C14_queuer_replay
    return C14_queuer_replay.replay(rp)
