"""C12 (target slice) - "a timer whose target is no longer running delivers nothing (send_after reports the error through its handle)".

The timer slices treat the target as the environment: the send a timer performs at expiry may succeed or fail, and a failure ends the interval / is reported
through the handle. What makes the send fail for a target that has left the running states is the gate at the head of the mailbox entry points. This slice
executes them alone (no concurrent sender: the concurrent protocol is C02 / C07) from every pre-state - the target's status symbolic, the admission word open or
closed, the channel open or closed:

  * a target whose status is Draining, Stopping or Stopped refuses the message: Err(SendErr(the same message)), nothing queued, admission word untouched;
  * a running target with open admission and an open channel accepts it exactly once."""
import z3

import lifeprops as lp
import mailbox as mb
import objects
from exec import State, Inconclusive
from values import *


def check(ctx, prog):
    fns = [('send_message_unchecked', mb.SEND)]
    if prog.find_fn(mb.SEND_SERIALIZED) is not None:
        fns.append(('send_serialized', mb.SEND_SERIALIZED))
    seen = set()
    for label, fn in fns:
        body = prog.find_fn(fn)
        if body is None:
            raise Inconclusive(fn + ' not found')
        ctx.encoded(prog, body)
        I = mb.new_interp(prog, 2)
        st = State()
        sv = z3.BitVec('target_status', 8)
        st.assume(z3.ULE(sv, 6))
        closed_bit = z3.Bool('admission_closed')
        chan_closed = z3.Bool('channel_closed')
        st.objs['status'] = {'w': sv}
        adm0 = z3.If(closed_bit, z3.BitVecVal(1 << 63, 64), z3.BitVecVal(0, 64))
        st.objs['adm'] = {'w': adm0}
        q = objects.chan_init(4)
        q['closed'] = chan_closed
        st.objs['msgq'] = q
        pv = mb.props_value(prog, I)
        cell = st.alloc(pv)
        outs = I.run_body(st, body, [Ref(cell, ()), Opaque('msg', ident=77)])
        ctx.absorb(I)
        ctx.paths += len(outs)
        for k, o in enumerate(outs):
            name = 'target.%s.path%d' % (label, k)
            cex = lambda m: replay()
            if o.kind != 'ret':
                lp.record(ctx, name, o.st, {'no_panic': False}, 'C12.target', on_cex=cex)
                continue
            s = o.st
            r = o.val
            if isinstance(r, Enum) and r.variant == 'Err' and isinstance(r.fields[0], BoxV):
                r = Enum('Result', 'Err', 1, (I.read(s, r.fields[0].cell, ()),))
            code = mb.classify_send(r, 77)
            gone = z3.UGE(sv, 4)
            queued = s.objs['msgq']['len'] == 1
            same_word = s.objs['adm']['w'] == adm0
            # refused whenever the target has left the running states, with the caller's own message handed back and nothing touched
            ctx.prove(name + '.a_target_that_left_the_running_states_refuses_the_message', s.pc,
                      z3.Implies(gone, z3.And(z3.BoolVal(code == 1), s.objs['msgq']['len'] == 0, same_word)),
                      group='C12.target.a_target_that_left_the_running_states_refuses_the_message', key='C12.target.a_target_that_left_the_running_states_refuses_the_message', on_cex=cex,
                      sample={'function': fn, 'claim': 'status >= Draining => Err(SendErr(own message)), queue and admission word untouched'})
            ctx.prove(name + '.ok_iff_queued_exactly_once', s.pc, z3.BoolVal(code == 0) == queued, group='C12.target.ok_iff_queued_exactly_once', key='C12.target.ok_iff_queued_exactly_once', on_cex=cex)
            ctx.prove(name + '.a_running_target_with_open_admission_accepts', s.pc,
                      z3.Implies(z3.And(z3.ULT(sv, 4), z3.Not(closed_bit), z3.Not(chan_closed)), z3.BoolVal(code == 0)),
                      group='C12.target.a_running_target_with_open_admission_accepts', key='C12.target.a_running_target_with_open_admission_accepts', on_cex=cex)
            seen.add('accepted' if code == 0 else 'refused')
    ctx.note_witness('C12.target.accept_path_exists', 'accepted' in seen)
    ctx.note_witness('C12.target.refuse_path_exists', 'refused' in seen)
    ctx.bounds['target'] = ('send_message_unchecked / send_serialized alone (no concurrent sender) from every pre-state: target status symbolic (0..6), admission word open or closed with no '
                            'ticket outstanding, channel open or closed; the concurrent admission protocol is C02 / C07')


def replay():
    import C12_target_replay
    return C12_target_replay.replay()
