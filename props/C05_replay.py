"""native replay of one supervision-tree operation from a concrete forest"""
import native


def run_native(rp, statuses):
    out, lines, rc, err = native.run('supervision', n=rp['n'], sup=['-' if s is None else s for s in rp['sup']], closed=rp['closed'], statuses=statuses,
                                     op=rp['op'], a=rp['a'], b=rp['b'], remote=':'.join(map(str, list(rp['remote'].items())[0])) if rp.get('remote') else 'none')
    if rc != 0:
        raise RuntimeError('native supervision replay failed: ' + err[-400:])
    obs = {'ret': out['ret'], 'cells': []}
    for i in range(rp['n']):
        d = dict(x.split(':') for x in out['cell%d' % i].split(';'))
        kids = None if d['children'] == 'closed' else sorted(int(x) for x in d['children'].split('+') if x)
        obs['cells'].append({'children': kids, 'sup': None if d['sup'] == '-' else int(d['sup']), 'killed': d['killed'] == '1', 'status': int(d['status'])})
    return obs


def descendants(sup, p):
    out, fr = [], [p]
    while fr:
        x = fr.pop()
        for j, s in enumerate(sup):
            if s == x and j not in out:
                out.append(j)
                fr.append(j)
    return out


def concrete_oracle(rp, statuses, obs):
    n, sup, closed, op, a, b = rp['n'], rp['sup'], rp['closed'], rp['op'], rp['a'], rp['b']
    bad = []
    pre_children = [None if i in closed else sorted(j for j in range(n) if sup[j] == i) for i in range(n)]
    post_children = [c['children'] for c in obs['cells']]
    post_sup = [c['sup'] for c in obs['cells']]
    # invariant
    for s in range(n):
        kids = post_children[s] or []
        for c in range(n):
            if (c in kids) != (post_sup[c] == s):
                bad.append('invariant_and_locks')
    if op == 'link':
        refuse = statuses[a] >= 4 or statuses[b] >= 4 or pre_children[b] is None
        if (obs['ret'] == '1') == refuse:
            bad.append('refused_iff_late_or_closed')
        if refuse and (post_children != pre_children or post_sup != list(sup)):
            bad.append('effect')
        if not refuse and not (post_sup[a] == b and a in (post_children[b] or [])):
            bad.append('effect')
    elif op == 'unlink':
        if sup[a] == b and (post_sup[a] is not None or a in (post_children[b] or [])):
            bad.append('effect')
        if sup[a] != b and (post_children != pre_children or post_sup != list(sup)):
            bad.append('effect')
    elif op == 'take':
        kids = pre_children[a] or []
        got = sorted(int(x) for x in obs['ret'].split('+') if x and x != '-')
        if got != kids or post_children[a] is not None or any(post_sup[c] is not None for c in kids):
            bad.append('effect')
    else:
        desc = descendants(sup, a)
        if any(post_children[d] is not None for d in desc + [a]) or any(post_sup[d] is not None for d in desc):
            bad.append('subtree_closed_and_detached')
        for d in desc:
            if statuses[d] < 5 and not obs['cells'][d]['killed']:
                bad.append('descendant_killed_unless_already_stopping')
            if statuses[d] >= 5 and obs['cells'][d]['killed']:
                bad.append('descendant_not_signalled_twice_or_when_stopping')
        for x in range(n):
            if x not in desc and x != a and obs['cells'][x]['killed']:
                bad.append('outsiders_untouched')
    return sorted(set(bad))


def link_race():
    """the lock discipline has no sequential observable: park a link on the tree lock, let the child finish its exit, release"""
    import native
    out, _l, rc, err = native.run('link_race', timeout=30)
    if rc != 0:
        raise RuntimeError('native link_race failed: ' + err[-300:])
    out = dict(out)
    bad = []
    if out.get('child_status') == '6' and (out.get('child_has_supervisor') != '0' or out.get('sup_children') != '0' or out.get('link_ret') != '0'):
        bad.append('a stopped actor was linked: %s' % out)
    return bad, out


def replay(rp, statuses):
    obs = run_native(rp, statuses)
    bad = concrete_oracle(rp, statuses, obs)
    if not bad and rp['op'] in ('link', 'unlink', 'take'):
        rb, ro = link_race()
        if rb:
            return {'replayed': True, 'detail': 'native link parked on the tree lock while the child exits: %s' % rb, 'replay': {'scenario': 'link_race'}}
    return {'replayed': bool(bad), 'detail': 'native %s(%s%s) from sup=%s closed=%s statuses=%s -> %s ; violated %s' % (
        rp['op'], rp['a'], '' if rp['b'] is None else ',%d' % rp['b'], rp['sup'], rp['closed'], statuses, obs, bad),
        'replay': {'scenario': 'supervision', 'rp': rp, 'statuses': statuses, 'violated': bad}}
