"""C13 (stop slice): `<Factory as Actor>::post_stop` - what happens to the jobs that are still waiting when the factory stops.

From factory states with 0..2 jobs in the factory queue and two workers (idle / busy, with 0..1 job waiting in the worker's own queue - the queue used by
worker-queued routing), a discard handler installed: every waiting job - in the factory queue or in a worker's queue - is handed to the discard handler exactly
once with the reason Shutdown (none silently disappears), nothing is discarded twice, every worker is stopped, and the stopped hook runs once, last."""
import z3

import lifecycle as lc
import lifeprops as lp
import models_std
import C13
import C14_books as books
import C15_pool as cp
import C15_drain as cd
from exec import State, Outcome, Inconclusive, Unmodelled
from values import *

FN = '<Factory<TKey, TMsg, TWorkerStart, TWorker, TRouter, TQueue> as Actor>::post_stop'


def check(ctx, prog):
    body = prog.find_fn(FN)
    if body is None:
        raise Inconclusive('Factory::post_stop not found')
    ctx.encoded(prog, body)
    d = prog.crate.struct('FactoryState')
    dw = prog.crate.struct('WorkerProperties')
    seen = set()
    for fq in ((), ('f0',), ('f0', 'f1')):
        for wq in ((), (0,), (0, 1)):
            I = cd.new_interp(prog)

            @I.model(r'(^|::)FactoryState::<.*>::cancel_dead_mans_check$', 'cancel_dead_mans_check (timer handle)')
            def m_cancel(I, st, f, args, fr):
                return I.ret(st, UNIT)

            @I.model(r'(^|::)WorkerProperties::<.*>::get_join_handle$', 'worker join handle (taken once)')
            def m_handle(I, st, f, args, fr):
                return I.ret(st, models_std.some(Agg('ReadyJoin', ())))
            prev = I.hooks.get('poll_other')

            def poll_other(I, st, v, cell, path, cx, fr, prev=prev):
                if isinstance(v, Agg) and v.ty == 'ReadyJoin':
                    return [Outcome(st, 'ret', models_std.ready(models_std.ok(UNIT)))]
                return prev(I, st, v, cell, path, cx, fr) if prev else None
            I.hooks['poll_other'] = poll_other
            st = State()
            fv = cp.mk_state(prog, I, st, 2, ('live', 'live', None, None), busy_live=tuple(wq))
            ff = list(fv.fields)
            ents = []
            for w in range(2):
                rec = books.mk_worker(prog, I, st, [6] if w in wq else [], (5,) if w in wq else ())
                f = list(rec.fields)
                # the queued job of worker w is called w<w>
                if w in wq:
                    f[dw['fields'].index('message_queue')] = Agg('VecDeque', [books.mk_job(prog, 6, 'w%d' % w)])
                f[dw['fields'].index('wid')] = I.mk_int(w, 'usize')
                f[dw['fields'].index('is_draining')] = z3.BoolVal(False)
                f[dw['fields'].index('actor')] = cp.actor_ref('actor%d' % w)
                f[dw['fields'].index('discard_handler')] = models_std.some(BoxV(st.alloc(Opaque('handler')), 'Arc'))
                ents.append(Agg('()', (I.mk_int(w, 'usize'), Agg('WorkerProperties', f))))
            ff[d['fields'].index('pool')] = Agg('HashMap', ents)
            ff[d['fields'].index('queue')] = Agg('VecDeque', [books.mk_job(prog, C13.K[i % 2], j) for i, j in enumerate(fq)])
            ff[d['fields'].index('discard_handler')] = models_std.some(BoxV(st.alloc(Opaque('handler')), 'Arc'))
            ff[d['fields'].index('lifecycle_hooks')] = models_std.some(BoxV(st.alloc(Opaque('hooks', ident='hooks')), 'Box'))
            ff[d['fields'].index('dead_mans_check')] = models_std.NONE
            fc = st.alloc(Agg('FactoryState', ff))
            st, coro = lc.make_coro(I, st, prog, FN, [Ref(st.alloc(Opaque('Factory')), ()), cp.actor_ref('myself'), Ref(fc, (), True)])
            cc = st.alloc(coro)
            frontier, done = [(st, 0)], []
            while frontier:
                s, n = frontier.pop()
                for o in lc.poll_coro(I, s, cc):
                    if o.kind != 'ret' or o.val.variant == 'Ready':
                        done.append(o)
                    elif n < 6:
                        frontier.append((o.st, n + 1))
                    else:
                        raise Inconclusive('post_stop did not complete within 6 polls')
            ctx.absorb(I)
            ctx.paths += len(done)
            for k, o in enumerate(done):
                name = 'stop.fq%d.wq%s.path%d' % (len(fq), ''.join(map(str, wq)) or '-', k)
                rp = {'fq': len(fq), 'wq': list(wq)}
                cex = (lambda rp=rp: (lambda m: replay(rp)))()
                if o.kind != 'ret':
                    lp.record(ctx, name, o.st, {'no_panic': False}, 'C13.stop', on_cex=cex)
                    continue
                if o.val.fields[0].variant == 'Err':
                    lp.record(ctx, name, o.st, {'post_stop_fails_only_when_the_hook_failed': any(e[0] == 'HOOK_FAILED' for e in o.st.trace)}, 'C13.stop', on_cex=cex)
                    continue
                _h, discarded, _r = C13.fates(o.st.trace)
                waiting = list(fq) + ['w%d' % w for w in wq]
                got = sorted(j for (reason, j) in discarded if reason == 'Shutdown')
                stops = [e for e in o.st.trace if e[0] == 'STOP_WORKER']
                hooks = [i for i, e in enumerate(o.st.trace) if e[0] == 'HOOK' and e[1] == 'stopped']
                claims = {'every_waiting_job_is_reported_as_shutdown_exactly_once': got == sorted(waiting) and len(discarded) == len(waiting),
                          'every_worker_is_stopped': len(stops) == 2,
                          'stopped_hook_runs_once_after_the_workers_were_stopped': len(hooks) == 1 and all(i < hooks[0] for i, e in enumerate(o.st.trace) if e[0] == 'STOP_WORKER')}
                if wq:
                    seen.add('worker_queue')
                if fq:
                    seen.add('factory_queue')
                lp.record(ctx, name, o.st, claims, 'C13.stop', on_cex=cex)
    for w_ in ('worker_queue', 'factory_queue'):
        ctx.note_witness('C13.stop.' + w_, w_ in seen)
    ctx.bounds['stop'] = 'Factory::post_stop with 0..2 jobs in the factory queue, two workers each idle or busy with one job waiting in its own queue, discard handler and lifecycle hooks installed'


def replay(rp):
    import C13_stop_replay
    return C13_stop_replay.replay(rp)
