"""Native replay for C17: the solver's assignment (state payload, message fields) is pushed through the real handshake machines /
the real session handlers (guard-on build, probes in /verif/hooks/cluster_node*.rs) and the claims are re-evaluated on what the
real code did."""
import json
import native

SERVER_EXPECTED = {('WaitingOnPeerName', 'Name'): {'HavePeerName'},
                   ('WaitingOnClientStatus', 'ClientStatus'): {'Close', 'WaitingOnClientChallengeReply'},
                   ('WaitingOnClientChallengeReply', 'ClientChallenge'): {'Ok', 'Close'}}
CLIENT_EXPECTED = {('WaitingForServerStatus', 'ServerStatus'): {'WaitingForServerChallenge'},
                   ('WaitingForServerChallenge', 'ServerChallenge'): {'WaitingForServerChallengeAck'},
                   ('WaitingForServerChallengeAck', 'ServerAck'): {'Ok', 'Close'}}
COOKIE = 'the-cookie'
CHECK_REPLIES = ('NoOtherConnection', 'OtherConnectionContinues', 'ThisConnectionContinues', 'DuplicateConnection', 'sender_error', 'err', 'timeout')
Z32 = '00' * 32


def mval(model, prefix, default=0):
    if model is None:
        return default
    for d in model.decls():
        if d.name().startswith(prefix + '!'):
            v = model[d]
            try:
                return v.as_long()
            except Exception:   # noqa
                return 1 if str(v) == 'True' else 0
    return default


def mbytes(model, prefix, n):
    return ''.join('%02x' % (mval(model, '%s_%d' % (prefix, i)) & 0xff) for i in range(n))


def state_args(role, sv, model):
    a = b = 0
    d1 = d2 = Z32
    if role == 'server':
        if sv == 'WaitingOnClientChallengeReply':
            a, d1 = mval(model, 'st_challenge'), mbytes(model, 'st_digest', 32)
        elif sv == 'Ok':
            d1 = mbytes(model, 'ok_digest', 32)
    else:
        if sv == 'WaitingForServerChallenge':
            a = mval(model, 'st_status') & 0xffffffff
        elif sv == 'WaitingForServerChallengeAck':
            a, b = mval(model, 'st_srv_challenge'), mval(model, 'st_our_challenge')
            d1, d2 = mbytes(model, 'st_reply', 32), mbytes(model, 'st_expected', 32)
    return {'a': a, 'b': b, 'd1': d1, 'd2': d2}


def msg_args(mname, model):
    kind = mname.split('/')[0]
    n = int(mname.split('/len')[1]) if '/len' in mname else 0
    val, flag, digest = 0, 0, ''
    if kind == 'ServerStatus':
        val = mval(model, 'msg_status') & 0xffffffff
    elif kind == 'ClientStatus':
        flag = mval(model, 'msg_client_status')
    elif kind == 'ServerChallenge':
        val = mval(model, 'msg_srv_challenge')
    elif kind == 'ClientChallenge':
        val, digest = mval(model, 'msg_reply_challenge'), mbytes(model, 'msg_reply_digest%d' % n, n)
    elif kind == 'ServerAck':
        digest = mbytes(model, 'msg_ack_digest%d' % n, n)
    return {'kind': kind, 'val': val, 'flag': flag, 'digest': digest}


def fsm_claims(machine, sv, sa, ma, out):
    """violated claims of one native step"""
    bad = []
    nxt = out.get('next')
    kind = ma['kind']
    if machine == 'start_challenge':
        allowed = {'WaitingOnClientChallengeReply'} if sv in ('WaitingOnClientStatus', 'HavePeerName') else {'Close'}
        if nxt not in allowed:
            bad.append('start_challenge.only_from_name_or_status_states')
        if nxt == 'WaitingOnClientChallengeReply' and out.get('next_digest') != out.get('digest_of_next_challenge'):
            bad.append('expected_digest_is_of_fresh_challenge')
        return bad
    expected = SERVER_EXPECTED if machine == 'server' else CLIENT_EXPECTED
    chal_state, reply = ('WaitingOnClientChallengeReply', 'ClientChallenge') if machine == 'server' else ('WaitingForServerChallengeAck', 'ServerAck')
    stored = sa['d1'] if machine == 'server' else sa['d2']
    if sv == 'Close' and nxt != 'Close':
        bad.append('close_is_absorbing')
    if (sv, kind) not in expected:
        if nxt != 'Close':
            bad.append('unexpected_message_closes')
    elif nxt not in expected[(sv, kind)]:
        bad.append('in_order_successors')
    if nxt == 'Ok' and not (sv == chal_state and kind == reply and ma['digest'] == stored):
        bad.append('ok_only_on_matching_digest')
    if sv == chal_state and kind == reply and nxt not in ('Ok', 'Close'):
        bad.append('wrong_digest_closes')
    if nxt in ('WaitingOnClientChallengeReply', 'WaitingForServerChallengeAck') and sv != nxt and out.get('next_digest') != out.get('digest_of_next_challenge'):
        bad.append('expected_digest_is_of_fresh_challenge')
    return bad


def run_fsm(machine, sv, sa, ma):
    out, _l, rc, err = native.run('auth_fsm', machine=machine, state=sv, cookie=COOKIE, **sa, **ma)
    if rc != 0:
        raise RuntimeError('native auth_fsm failed: ' + err[-300:])
    return out


def replay_fsm(which, sv, mname, model):
    role = 'client' if which == 'client' else 'server'
    sa = state_args(role, sv, model)
    ma = msg_args(mname, model)
    out = run_fsm(which, sv, sa, ma)
    bad = fsm_claims(which, sv, sa, ma, out)
    return {'replayed': bool(bad), 'detail': 'native %s machine: %s %s --%s--> %s ; violated %s' % (which, sv, sa, ma, out.get('next'), bad),
            'replay': {'scenario': 'auth_fsm', 'machine': which, 'state': sv, 'state_args': sa, 'msg_args': ma, 'violated': bad}}


def run_session(auth, sa, frame, ma, advertised=1, remotable=1, check_reply='NoOtherConnection'):
    kw = dict(auth=auth, frame=frame, advertised=int(advertised), remotable=int(remotable), check_reply=check_reply, cookie=COOKIE)
    kw.update(sa)
    kw.update({'kind': ma['kind'], 'val': ma.get('val', 0), 'flag': ma.get('flag', 0), 'digest': ma.get('digest', '')})
    out, _l, rc, err = native.run('auth_session', timeout=30, **kw)
    if rc != 0:
        raise RuntimeError('native auth_session failed: ' + err[-300:])
    return out


def quiet(out):
    """nothing observable happened"""
    return (out.get('delivered') == '0' and out.get('remote_actors') == '0' and out.get('group_members') == '0' and out.get('children') == '0' and out.get('tcp_sent') == '0'
            and out.get('server_log', '') == '' and out.get('ready') == 'Open')


def replay_gate(which, params):
    auth = params.get('auth', 'AsServer(WaitingOnPeerName)')
    authed = auth.endswith('(Ok)')
    sa = {'a': 0, 'b': 0, 'd1': Z32, 'd2': Z32}
    bad, runs = [], []
    if which in ('node', 'predicate'):
        kinds = [params['msg']] if params.get('msg') else ['Cast', 'Call/timeout', 'Call/no-timeout', 'Reply', 'None']
        for kind in kinds:
            for adv in (1, 0):
                for rem in (1, 0):
                    out = run_session(auth, sa, 'node', {'kind': kind}, adv, rem)
                    runs.append((kind, adv, rem, out.get('delivered'), out.get('auth')))
                    if not authed and not quiet(out):
                        bad.append('unauthenticated_node_message_has_no_effect[%s adv=%d rem=%d]' % (kind, adv, rem))
                    if authed and out.get('delivered') != '0' and not (adv and rem):
                        bad.append('delivery_only_to_advertised_remotable_actor[%s adv=%d rem=%d]' % (kind, adv, rem))
                    if out.get('auth') != auth:
                        bad.append('state_unchanged[%s]' % kind)
    else:
        kinds = [params['msg']] if params.get('msg') else ['Spawn', 'PgJoin', 'Ready', 'Ping']
        for kind in kinds:
            out = run_session(auth, sa, 'control', {'kind': kind})
            runs.append((kind, {k: out.get(k) for k in ('remote_actors', 'group_members', 'children', 'tcp_sent', 'server_log', 'ready')}))
            if not authed and not quiet(out):
                bad.append('unauthenticated_control_message_has_no_effect[%s]' % kind)
    return {'replayed': bool(bad), 'detail': 'native session gate %s on %s: %s ; violated %s' % (which, auth, runs, bad),
            'replay': {'scenario': 'auth_session', 'which': which, 'params': params, 'violated': bad}}


def auth_claims(auth, sv, role, sa, ma, out):
    bad = []
    post = out.get('auth', '')
    prole, pstate = post.split('(')[0], post.split('(')[1].rstrip(')')
    if prole != auth.split('(')[0]:
        bad.append('role_is_kept')
    chal_state, reply = ('WaitingOnClientChallengeReply', 'ClientChallenge') if role == 'server' else ('WaitingForServerChallengeAck', 'ServerAck')
    stored = sa['d1'] if role == 'server' else sa['d2']
    if pstate == 'Ok' and not (sv == 'Ok' or (sv == chal_state and ma['kind'] == reply and ma['digest'] == stored)):
        bad.append('authenticated_only_by_matching_digest')
    if sv == 'Close' and pstate != 'Close':
        bad.append('closed_stays_closed')
    if pstate == 'Close' and out.get('myself_stopped') != 'true':
        bad.append('closing_stops_the_session')
    if role == 'server' and pstate == 'WaitingOnClientChallengeReply' and sv != pstate and out.get('auth_d') != out.get('digest_of_auth_a'):
        bad.append('expected_digest_is_of_fresh_challenge')
    if sv != 'Ok' and (out.get('delivered') != '0' or out.get('remote_actors') != '0' or out.get('group_members') != '0' or out.get('children') != '0'):
        bad.append('only_handshake_effects_before_authentication')
    return bad


def replay_auth(lab, mname, model, replies=CHECK_REPLIES):
    role = 'server' if lab.startswith('AsServer') else 'client'
    sv = lab.split('(')[1].rstrip(')')
    sa = state_args(role, sv, model)
    ma = msg_args(mname, model)
    bad, runs = [], []
    for cr in replies:
        out = run_session(lab, sa, 'auth', ma, check_reply=cr)
        b = auth_claims(lab, sv, role, sa, ma, out)
        runs.append((cr, out.get('auth'), out.get('myself_stopped')))
        bad += ['%s[check_session=%s]' % (x, cr) for x in b]
        if sv != 'WaitingOnPeerName' or ma['kind'] != 'Name':
            break       # CheckSession is only asked on the name message
    return {'replayed': bool(bad), 'detail': 'native handle_auth on %s %s with %s: %s ; violated %s' % (lab, sa, ma, runs, bad),
            'replay': {'scenario': 'auth_session', 'which': 'auth', 'auth': lab, 'mname': mname, 'state_args': sa, 'msg_args': ma, 'violated': bad}}


def replay_sessions():
    """GetSessions on a real NodeServer state: two known, named sessions, every subset of them recorded as authenticated"""
    bad, obs = [], {}
    for auth in ((), (1,), (2,), (1, 2)):
        out, _l, rc, err = native.run('node_sessions', authenticated=list(auth), unnamed=[], timeout=30)
        if rc != 0:
            raise RuntimeError('native node_sessions failed: ' + err[-300:])
        listed = tuple(int(x) for x in out.get('listed', '').split(',') if x)
        obs[str(auth)] = listed
        if listed != auth:
            bad.append('authenticated %s but listed %s' % (list(auth), list(listed)))
    return {'replayed': bool(bad), 'detail': 'native NodeServer GetSessions: %s ; violated %s' % (obs, bad), 'replay': {'scenario': 'node_sessions', 'which': 'sessions', 'params': {}, 'violated': bad}}


def replay_dispatch(lab, mname, model):
    """the same frame through the actor's handle(): the node server must hear ConnectionAuthenticated exactly when this step authenticated the session"""
    role = 'server' if lab.startswith('AsServer') else 'client'
    sv = lab.split('(')[1].rstrip(')')
    sa = state_args(role, sv, model)
    ma = msg_args(mname, model)
    out = run_session(lab, sa, 'auth_handle', ma)
    n = out.get('server_log', '').split(',').count('ConnectionAuthenticated')
    post_ok = out.get('auth', '').endswith('(Ok)')
    bad = auth_claims(lab, sv, role, sa, ma, out)
    if n > 1:
        bad.append('authenticated_announced_at_most_once')
    if n and (sv == 'Ok' or not post_ok):
        bad.append('announced_only_after_the_digest_matched: %d announcement(s), state before %s, after %s' % (n, lab, out.get('auth')))
    return {'replayed': bool(bad), 'detail': 'native NodeSession::handle on %s %s with %s -> %s, server heard %s ; violated %s' % (lab, sa, ma, out.get('auth'), out.get('server_log'), bad),
            'replay': {'scenario': 'auth_session', 'which': 'dispatch', 'auth': lab, 'mname': mname, 'state_args': sa, 'msg_args': ma, 'violated': bad}}


def replay_file(d):
    rp = d['replay']
    if rp['scenario'] == 'auth_fsm':
        out = run_fsm(rp['machine'], rp['state'], rp['state_args'], rp['msg_args'])
        bad = fsm_claims(rp['machine'], rp['state'], rp['state_args'], rp['msg_args'], out)
        print('native:', out)
    elif rp['which'] == 'sessions':
        r = replay_sessions()
        print(r['detail'])
        bad = r['replay']['violated']
    elif rp['which'] == 'dispatch':
        out = run_session(rp['auth'], rp['state_args'], 'auth_handle', rp['msg_args'])
        print('native:', out)
        n = out.get('server_log', '').split(',').count('ConnectionAuthenticated')
        bad = ['announced_only_after_the_digest_matched'] if n and (rp['auth'].endswith('(Ok)') or not out.get('auth', '').endswith('(Ok)')) else []
    elif rp['which'] == 'auth':
        role = 'server' if rp['auth'].startswith('AsServer') else 'client'
        sv = rp['auth'].split('(')[1].rstrip(')')
        bad = []
        for cr in CHECK_REPLIES:
            out = run_session(rp['auth'], rp['state_args'], 'auth', rp['msg_args'], check_reply=cr)
            print('native [%s]:' % cr, out)
            bad += auth_claims(rp['auth'], sv, role, rp['state_args'], rp['msg_args'], out)
    else:
        r = replay_gate(rp['which'], rp['params'])
        print(r['detail'])
        bad = r['replay']['violated']
    print('violated:', bad)
    return 1 if bad else 0
