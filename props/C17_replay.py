"""native replay for C17 (stub while the probes are being written)"""


def replay_fsm(which, sv, mname, model):
    return {'replayed': False, 'detail': 'no native replay yet'}


def replay_gate(which, params):
    return {'replayed': False, 'detail': 'no native replay yet'}


def replay_auth(lab, mname, model):
    return {'replayed': False, 'detail': 'no native replay yet'}


def replay_file(d):
    return 0
