"""native replay for C11: the public pg API with real actors in a fresh process; the pre-state of the counterexample is built through join / monitor calls,
one operation is performed, membership, the scope index (through which_scoped_groups) and the monitor's notifications are compared with the claims"""
import native


def run_native(members, listeners, world, S, op, g, who, stopped=''):
    g1 = ''.join(members.get((S['D'], 'g1'), []))
    g2 = ''.join(members.get((S['D'], 'g2'), []))
    lg = 1 if listeners.get((S['D'], 'g1')) else 0
    lw = 'scope' if world.get((S['D'], S['AG'])) else ('all' if world.get((S['AS'], S['AG'])) else 'none')
    out, _, rc, err = native.run('pg', g1=g1, g2=g2, lg=lg, lw=lw, op=op, g=g or 'g1', who=''.join(who), stopped=stopped, timeout=30)
    if rc != 0:
        raise RuntimeError('native pg replay failed: ' + err[-300:])
    return {'g1': sorted(out.get('g1', '')), 'g2': sorted(out.get('g2', '')), 'index': sorted(x for x in out.get('index', '').split('+') if x),
            'notes': [x for x in out.get('notes', '').split('+') if x]}


def n_recipients(S, listeners, world, g):
    return (1 if listeners.get((S['D'], g)) else 0) + (1 if world.get((S['D'], S['AG'])) else 0) + (1 if world.get((S['AS'], S['AG'])) else 0)


def replay(op, g, who, members, listeners, world, S):
    bad = []
    who = tuple(who)
    before = {x: sorted(members.get((S['D'], x), [])) for x in ('g1', 'g2')}
    runs = {}

    def common(obs, tag):
        if obs['index'] != sorted(x for x in ('g1', 'g2') if obs[x]):
            bad.append('%s: scope index %s does not list exactly the groups with members %s' % (tag, obs['index'], {x: obs[x] for x in ('g1', 'g2')}))
    if op in ('join_scoped', 'leave_scoped'):
        obs = run_native(members, listeners, world, S, op, g, who)
        runs['live'] = obs
        common(obs, op)
        want = sorted(set(before[g]) | set(who)) if op == 'join_scoped' else sorted(set(before[g]) - set(who))
        if obs[g] != want:
            bad.append('%s: members of %s are %s, expected %s' % (op, g, obs[g], want))
        effective = (set(who) - set(before[g])) if op == 'join_scoped' else (set(who) & set(before[g]))
        k = n_recipients(S, listeners, world, g)
        kind = 'Join' if op == 'join_scoped' else 'Leave'
        mine = [x for x in obs['notes'] if x.startswith('%s/%s/%s/' % (kind, S['D'], g))]
        if effective and len(mine) != k:
            bad.append('%s: %d notifications for %d monitors: %s' % (op, len(mine), k, obs['notes']))
        if any(not x.startswith(kind) or ('/%s/' % g) not in x for x in obs['notes']):
            bad.append('%s: foreign notification %s' % (op, obs['notes']))
        if op == 'join_scoped':
            # a stopped actor must not be added
            obs2 = run_native(members, listeners, world, S, op, g, who, stopped=''.join(sorted(set(who))))
            runs['stopped'] = obs2
            common(obs2, op + ' (stopped actors)')
            if set(obs2[g]) - set(before[g]) - set():
                if set(obs2[g]) & (set(who) - set(before[g])):
                    bad.append('join_scoped added a stopped actor: %s' % obs2[g])
    elif op in ('leave_all', 'demonitor_all', 'exit'):
        x = who[0]
        obs = run_native(members, listeners, world, S, 'exit', 'g1', (x,))
        runs['exit'] = obs
        common(obs, 'exit')
        if x in obs['g1'] or x in obs['g2']:
            bad.append('exited actor %s still a member: %s' % (x, obs))
        if x != 'l':
            want = sum(n_recipients(S, listeners, world, gg) for gg in ('g1', 'g2') if x in before[gg])
            mine = [n for n in obs['notes'] if n.startswith('Leave/') and n.endswith('/' + x)]
            if len(mine) != want or len(obs['notes']) != want:
                bad.append('exit of %s: %d Leave notifications, expected %d: %s' % (x, len(mine), want, obs['notes']))
        else:
            # the monitor itself exited: a later join must not notify it
            pass
    elif op in ('monitor', 'monitor_scope', 'demonitor', 'demonitor_scope'):
        obs = run_native(members, listeners, world, S, op, 'g1', who)
        runs['op'] = obs
        common(obs, op)
        if obs['g1'] != before['g1'] or obs['g2'] != before['g2'] or obs['notes']:
            bad.append('%s changed membership or notified: %s' % (op, obs))
    else:
        obs = run_native(members, listeners, world, S, 'none', 'g1', ())
        runs['query'] = obs
        common(obs, 'query')
        if obs['g1'] != before['g1'] or obs['g2'] != before['g2']:
            bad.append('queries disagree with membership: %s vs %s' % (obs, before))
    if not bad:
        # nothing visible sequentially: the counterexample may be one of the lock invariant (state at the release of a group's entry)
        if op not in _RACED:
            _RACED[op] = race(op)
        if _RACED[op]['replayed']:
            return _RACED[op]
    return {'replayed': bool(bad), 'detail': 'native pg scenario %s %s %s from members %s, group monitor %s, world monitor %s -> %s ; violated %s' % (
        op, g, ''.join(who), before, bool(listeners), sorted(world), runs, bad),
        'replay': {'op': op, 'g': g, 'who': list(who), 'members': {k[1]: v for k, v in members.items()}, 'lg': bool(listeners), 'lw': 'scope' if world.get((S['D'], S['AG'])) else ('all' if world else 'none'), 'S': S}}


_RACED = {}
RACE_MODES = {'leave_all': 'exit', 'exit': 'exit', 'demonitor_all': 'exit', 'leave_scoped': 'leave_join', 'join_scoped': 'join_leave'}


def race(op, tries=3):
    """the lock invariant (index agrees with membership whenever a group's entry is released) has no sequential observable: look for an interleaving of
    two threads on the real build after which the public queries disagree. A disagreement reproduces the counterexample; none found = not reproduced."""
    first = RACE_MODES.get(op, 'exit')
    runs = []
    for mode in [first] + [m for m in ('exit', 'leave_join', 'join_leave', 'leave_rejoin') if m != first]:
        for t in range(tries):
            out, _, rc, err = native.run('pg_race', mode=mode, k=64 if mode in ('exit', 'leave_rejoin') else 16, iters=40 if mode == 'exit' else (25 if mode == 'leave_rejoin' else 60), timeout=180)
            if rc != 0:
                raise RuntimeError('native pg race failed: ' + err[-300:])
            runs.append({'mode': mode, 'disagreements': out.get('disagreements'), 'detail': out.get('detail', '')})
            if out.get('disagreements', '0') != '0':
                return {'replayed': True, 'detail': 'two threads on the real build (%s): %s' % (mode, out.get('detail')), 'replay': {'race': mode, 'op': op}}
    return {'replayed': False, 'detail': 'no interleaving of two threads made the public queries disagree: %s' % runs, 'replay': {'race': first, 'op': op}}


def race_last_leave(tries=3, iters=20000):
    """the relations record of a live actor must stay in the reverse index: one thread makes an actor leave its only group while another joins it elsewhere,
    then the actor exits - it must be in no group afterwards (two real threads, many rounds: the window is a few instructions wide)"""
    runs = []
    for t in range(tries):
        out, _, rc, err = native.run('pg_race', mode='last_leave_join', k=2, iters=iters, timeout=300)
        if rc != 0:
            raise RuntimeError('native pg race failed: ' + err[-300:])
        runs.append({'disagreements': out.get('disagreements'), 'detail': out.get('detail', '')})
        if out.get('disagreements', '0') != '0':
            return {'replayed': True, 'detail': 'two threads on the real build (last_leave_join): %s' % out.get('detail'), 'replay': {'race': 'last_leave_join', 'op': 'last_leave_join'}}
    return {'replayed': False, 'detail': 'no interleaving of the two threads left the stopped actor in a group (%d x %d rounds): %s' % (tries, iters, runs), 'replay': {'race': 'last_leave_join', 'op': 'last_leave_join'}}


def race_join_exit(tries=3, iters=400):
    """a join must look at the actor's status again once it holds the actor's relations lock (the lock the exit clean-up takes after publishing Stopping): one
    thread joins a long list ending in the actor while the actor is stopped / killed; after the exit and the join the actor must be in no group"""
    runs = []
    for t in range(tries):
        out, _, rc, err = native.run('pg_race', mode='join_exit', k=1500, iters=iters, timeout=300)
        if rc != 0:
            raise RuntimeError('native pg race failed: ' + err[-300:])
        runs.append({'disagreements': out.get('disagreements'), 'detail': out.get('detail', '')})
        if out.get('disagreements', '0') != '0':
            return {'replayed': True, 'detail': 'two threads on the real build (join_exit): %s' % out.get('detail'), 'replay': {'race': 'join_exit', 'op': 'join_exit'}}
    return {'replayed': False, 'detail': 'no interleaving of the join and the exit left the stopped actor in the group (%d x %d rounds): %s' % (tries, iters, runs), 'replay': {'race': 'join_exit', 'op': 'join_exit'}}


def replay_json(rp):
    if rp.get('race') == 'join_exit':
        return race_join_exit()
    if rp.get('race') == 'last_leave_join':
        return race_last_leave()
    if 'race' in rp:
        return race(rp['op'])
    S = rp['S']
    members = {(S['D'], g): v for g, v in rp['members'].items()}
    listeners = {(S['D'], 'g1'): ['l']} if rp['lg'] else {}
    world = {(S['D'], S['AG']): ['l']} if rp['lw'] == 'scope' else ({(S['AS'], S['AG']): ['l']} if rp['lw'] == 'all' else {})
    return replay(rp['op'], rp['g'], rp['who'], members, listeners, world, S)
