"""native replay for the C19 job metadata slice: a real Job<Vec<u8>, _> decoded from a serialized message with the given metadata"""
import native


def run_native(meta):
    if meta is None:
        out, _l, rc, err = native.run('job_meta', meta=[], none=1, timeout=30)
    else:
        out, _l, rc, err = native.run('job_meta', meta=list(meta), none=0, timeout=30)
    if rc != 0:
        raise RuntimeError('native job_meta failed: ' + err[-300:])
    return dict(out)


def evaluate(meta):
    out = run_native(meta)
    bad = []
    r = out.get('result')
    if meta is None or len(meta) < 16:
        if r != 'err':
            bad.append('metadata %s must be rejected with an error: %s' % (meta, out))
    else:
        keyb = meta[16:]
        if r != 'ok':
            bad.append('well-formed metadata %s not decoded: %s' % (meta, out))
        else:
            w0 = int.from_bytes(bytes(meta[0:8]), 'big')
            w1 = int.from_bytes(bytes(meta[8:16]), 'big')
            if out.get('key', '') != '.'.join(str(x) for x in keyb):
                bad.append('key %s decoded from %s' % (out.get('key'), keyb))
            if out.get('submit') != str(w0):
                bad.append('submit time %s, wire word %d' % (out.get('submit'), w0))
            if out.get('ttl') != ('none' if w1 == 0 else str(w1)):
                bad.append('ttl %s, wire word %d' % (out.get('ttl'), w1))
    return bad, out


def battery():
    bad, n = [], 0
    cases = [None, [], [0] * 15, [0] * 16, [0] * 24, [255] * 24, [0, 0, 0, 0, 0, 0, 0, 5] + [0, 0, 0, 0, 0, 0, 0, 0] + [0, 0, 0, 0, 0, 0, 1, 2],
             [255] * 8 + [0] * 7 + [1] + [9] * 8, [1] * 16 + [2] * 3, [127] + [255] * 7 + [255] * 8 + [0] * 8]
    for m in cases:
        b, out = evaluate(m)
        n += 1
        bad += ['%s: %s' % (m, x) for x in b]
    return bad, n


def replay(m, L, bs):
    import z3
    if L is None or m is None:
        meta = None
    else:
        meta = []
        for b in bs:
            v = m.eval(b.t, model_completion=True)
            meta.append(v.as_long() if z3.is_bv_value(v) else 0)
    tries = [meta] + [None, [], [0] * 15, [0] * 24, [255] * 24]
    bad = []
    for t in tries:
        b, out = evaluate(t)
        bad += ['%s: %s' % (t, x) for x in b]
    return {'replayed': bool(bad), 'detail': 'native Job<Vec<u8>,_>::deserialize: %s' % (bad[:3] or 'no violation on the counterexample and the fixed battery'), 'replay': {'which': 'jobmeta', 'meta': meta}}
