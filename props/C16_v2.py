"""C16, v2 port (`--features output-port-v2`): the fan-out task's `dispatch_batch` and `apply_subscriber` on MIR.

One batch of 0..N items - data and subscription changes in every arrangement - is dispatched to 0..2 existing subscribers; every `Subscriber::send` may
accept or refuse (a refusing subscriber is one whose actor stopped). Compared, subscriber by subscriber, with the reference semantics "apply the items one
after the other": a subscriber receives exactly the data published while it is subscribed, in order, once, none skipped; a refusal drops that subscriber
and nothing else; a (re)subscription takes effect at its position in the batch (replacement in place unless duplicates are allowed); the batch is consumed.
The mpsc in front of the task keeps the publication order (tokio contract), so batches compose.
"""
import itertools
import re
import z3

import mirdump
import lifecycle as lc
import lifeprops as lp
import models_std
from exec import State, Outcome, Inconclusive, Unmodelled
from values import *

FEATURES = ('output-port-v2',)
ALPHABET = ('D', 'Snew', 'Sdup', 'Snone')


def load():
    return mirdump.load('ractor', features=FEATURES)


def new_interp(prog, n):
    I = lc.new_interp(prog, poll_budget=0, loop_bound=n * 4 + 8)
    I.max_paths = 200000

    @I.model(r'^<dyn (\w+::)*Subscriber<.*> as (\w+::)*Subscriber<.*>>::send$', 'Subscriber::send: accepts or refuses (refusal = the subscriber is gone)')
    def m_send(I, st, f, args, fr):
        sub = models_std.deref_val(I, st, args[0])
        msg = models_std.deref_val(I, st, args[1])
        s2 = st.fork()
        st.emit('SEND', sub.ident, msg.ident, True)
        s2.emit('SEND', sub.ident, msg.ident, False)
        return [Outcome(st, 'ret', z3.BoolVal(True)), Outcome(s2, 'ret', z3.BoolVal(False))]

    @I.model(r'^<dyn (\w+::)*Subscriber<.*> as (\w+::)*Subscriber<.*>>::id$', 'Subscriber::id')
    def m_id(I, st, f, args, fr):
        sub = models_std.deref_val(I, st, args[0])
        return I.ret(st, I.mk_int(sub.info, 'u64'))

    @I.model(r'(^|::)consume_budget$', 'tokio coop::consume_budget (ready)')
    def m_budget(I, st, f, args, fr):
        return I.ret(st, Agg('ReadyFut', (UNIT,)))
    prev = I.hooks.get('poll_other')

    def poll_other(I, st, v, cell, path, cx, fr, prev=prev):
        if isinstance(v, Agg) and v.ty == 'ReadyFut':
            return [Outcome(st, 'ret', models_std.ready(v.fields[0]))]
        return prev(I, st, v, cell, path, cx, fr) if prev else None
    I.hooks['poll_other'] = poll_other
    return I


def subscriber(name, sid):
    return Opaque('Subscriber', ident=name, info=sid)


def build(prog, I, st, n_subs, shape):
    """returns (subscribers cell, batch cell, reference description of the items)"""
    subs = [(i + 1, 's%d' % i) for i in range(n_subs)]
    vec = Agg('Vec', [Agg('()', (I.mk_int(sid, 'u64'), BoxV(st.alloc(subscriber(nm, sid)), 'Box'))) for sid, nm in subs])
    items, ref = [], []
    ed = prog.crate.enum('OutportMessage')
    if not ed:
        raise Inconclusive('OutportMessage not found')
    disc = {v: idx for (v, idx, kind, fl) in ed['variants']}
    next_id = 10
    for k, a in enumerate(shape):
        if a == 'D':
            items.append(Enum('OutportMessage', 'Data', disc['Data'], (Opaque('TMsg', ident='m%d' % k),)))
            ref.append(('D', 'm%d' % k))
        elif a == 'Snone':
            items.append(Enum('OutportMessage', 'SetSubscriber', disc['SetSubscriber'], (models_std.NONE,)))
            ref.append(('N',))
        else:
            if a == 'Sdup':
                sid = 1      # the id of the first initial subscriber (or of nobody, if there is none)
            else:
                sid = next_id
                next_id += 1
            nm = 'n%d' % k
            items.append(Enum('OutportMessage', 'SetSubscriber', disc['SetSubscriber'], (models_std.some(BoxV(st.alloc(subscriber(nm, sid)), 'Box')),)))
            ref.append(('S', sid, nm))
    return st.alloc(vec), st.alloc(Agg('Vec', items)), subs, ref


def reference(subs, ref, allow_dup, decide):
    """items applied one after the other; decide(sub, msg) -> True / False / None (None: the implementation never made that delivery)"""
    cur = list(subs)
    got = {}
    missing = []
    for it in ref:
        if it[0] == 'D':
            for (sid, nm) in list(cur):
                d = decide(nm, it[1])
                if d is None:
                    missing.append((nm, it[1]))
                    continue
                got.setdefault(nm, []).append(it[1])
                if not d:
                    cur.remove((sid, nm))
        elif it[0] == 'S':
            _, sid, nm = it
            idx = next((i for i, (x, _) in enumerate(cur) if x == sid), None)
            if idx is not None and not allow_dup:
                cur[idx] = (sid, nm)
            else:
                cur.append((sid, nm))
    return cur, got, missing


def check_instance(ctx, prog, body, n_subs, shape, allow_dup, seen):
    I = new_interp(prog, len(shape))
    st = State()
    sc, bc, subs, ref = build(prog, I, st, n_subs, shape)
    st, coro = lc.make_coro(I, st, prog, body.name, [Ref(sc, (), True), Ref(bc, (), True), z3.BoolVal(allow_dup)])
    cc = st.alloc(coro)
    frontier, done = [(st, 0)], []
    while frontier:
        s, n = frontier.pop()
        for o in lc.poll_coro(I, s, cc):
            if o.kind != 'ret' or o.val.variant == 'Ready':
                done.append(o)
            elif n < 3:
                frontier.append((o.st, n + 1))
            else:
                raise Inconclusive('dispatch_batch did not complete')
    ctx.absorb(I)
    ctx.paths += len(done)
    tag = 'v2.%s.subs%d.%s' % ('dup' if allow_dup else 'nodup', n_subs, '-'.join(shape) or 'empty')
    for k, o in enumerate(done):
        name = '%s.path%d' % (tag, k)
        cex = lambda m, n_subs=n_subs, shape=shape, allow_dup=allow_dup, o=o: replay(n_subs, shape, allow_dup, [e for e in o.st.trace if e[0] == 'SEND'])
        if o.kind != 'ret':
            lp.record(ctx, name, o.st, {'dispatch_completes_without_panic': False}, 'C16.v2', on_cex=cex)
            continue
        sends = [e for e in o.st.trace if e[0] == 'SEND']
        dec = {}
        twice = False
        per = {}
        for (_, nm, msg, acc) in sends:
            if (nm, msg) in dec:
                twice = True
            dec[(nm, msg)] = acc
            per.setdefault(nm, []).append(msg)
        cur, got, missing = reference(subs, ref, allow_dup, lambda nm, msg: dec.get((nm, msg)))
        after = o.st.cells[sc]
        after_names = [models_std.deref_val(I, o.st, p.fields[1]).ident for p in after.fields]
        after_ids = [p.fields[0].concrete() for p in after.fields]
        claims = {
            'dispatch_completes_without_panic': True,
            'nothing_delivered_twice': not twice,
            'no_published_data_is_skipped_for_a_live_subscriber': not missing,
            'each_subscriber_gets_exactly_the_data_of_its_subscription_window_in_order': per == got,
            'subscribers_afterwards_are_those_the_items_leave_in_place': after_names == [nm for (_, nm) in cur] and after_ids == [sid for (sid, _) in cur],
            'batch_is_consumed': len(o.st.cells[bc].fields) == 0,
        }
        if any(not e[3] for e in sends):
            seen.add('refusal')
        if any(it[0] == 'S' for it in ref) and any(nm.startswith('n') for nm in per):
            seen.add('late_subscriber_served')
        if not allow_dup and any(it[0] == 'S' and it[1] == 1 for it in ref) and n_subs:
            seen.add('replacement')
        lp.record(ctx, name, o.st, claims, 'C16.v2', on_cex=cex,
                  sample={'batch': list(shape), 'subscribers': n_subs, 'allow_duplicates': allow_dup, 'deliveries': [list(e[1:]) for e in sends]} if k == 0 and len(shape) == 3 and n_subs == 2 else None)


def check(ctx, tier):
    prog, info = load()
    body = prog.find_fn('dispatch_batch')
    ap = prog.find_fn('apply_subscriber')
    if body is None or ap is None:
        raise Inconclusive('dispatch_batch / apply_subscriber not found in the v2 dump')
    ctx.encoded(prog, body)
    ctx.encoded(prog, ap)
    maxn = 3 if tier == 'quick' else 4
    seen = set()
    for n in range(0, maxn + 1):
        for shape in itertools.product(ALPHABET, repeat=n):
            for n_subs in (0, 1, 2):
                if n == maxn and n_subs == 2 and tier == 'quick' and shape.count('D') > 2:
                    pass
                for allow_dup in (True, False):
                    check_instance(ctx, prog, body, n_subs, shape, allow_dup, seen)
    for w in ('refusal', 'late_subscriber_served', 'replacement'):
        ctx.note_witness('C16.v2.' + w, w in seen)
    ctx.bounds['v2'] = 'one batch of 0..%d items over {data, new subscriber, subscriber with an existing id, empty subscription change} in every arrangement, 0..2 subscribers before it, duplicates allowed / not; every send accepts or refuses' % maxn
    ctx.assumptions.append('v2 port: the unbounded mpsc in front of the fan-out task delivers items in send order and recv_many returns a prefix of them (tokio contract); consume_budget is ready')


def replay(n_subs, shape, allow_dup, sends):
    import C16_v2_replay
    return C16_v2_replay.replay(n_subs, shape, allow_dup, sends)
