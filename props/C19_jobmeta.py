"""C19, engine-M slice: job metadata of factory messages that arrive serialized (`ractor/src/factory/job.rs`).

  Job::deserialize_meta(Option<Vec<u8>>)  metadata absent or 0..MAXL symbolic bytes; the key decoder (`TKey::from_bytes`) opaque. No metadata or fewer than 16 bytes
                                         is an error, never a panic; otherwise the key decoder gets exactly the bytes after the 16th and the options are built from
                                         the two big-endian words in front (submit time, ttl; ttl 0 = none) - for every value of those words, with the local wall
                                         clock anywhere (a submit time from the future included), nothing panics
  JobOptions::into_bytes -> from_bytes    for every submit time not before the epoch and every ttl: 16 bytes, and decoding them restores submit time and ttl
                                         (to the nanosecond, up to u64 nanoseconds)
"""
import re
import z3

import world
import lifeprops as lp
import models_std
from exec import State, Outcome, Inconclusive, Unmodelled
from values import *

MAXL = 20
SYS_MAX = (1 << 63) * 1000000000      # SystemTime on unix: i64 seconds


def new_interp(prog):
    I = world.new_interp(prog, loop_bound=MAXL + 4)

    def sys_n(I, st, v):
        v = models_std.deref_val(I, st, v)
        if isinstance(v, Agg) and v.ty == 'SystemTime':
            return v.fields[0]
        raise Unmodelled('expected SystemTime, got %r' % (v,))

    @I.model(r'^(std::time::)?SystemTime::now$', 'SystemTime::now: any wall-clock time after the epoch')
    def m_sys_now(I, st, f, args, fr):
        t = I.fresh_int('wall_now', 'u128', st)
        st.assume(I.binop('Le', t, I.mk_int(SYS_MAX - 1, 'u128'), st))
        st.emit('WALL_NOW', t)
        return I.ret(st, Agg('SystemTime', (t,)))

    @I.model(r'^<(std::time::)?SystemTime as Add<(std::time::)?Duration>>::add$', 'SystemTime + Duration (panics when the result is not representable)')
    def m_sys_add(I, st, f, args, fr):
        a = sys_n(I, st, args[0])
        d = models_std.deref_val(I, st, args[1]).fields[0]
        s = I.binop('Add', a, d, st)
        bad = I.binop('Ge', s, I.mk_int(SYS_MAX, 'u128'), st)
        outs = []
        for s2, is_bad in models_std.branch(I, st, bad):
            outs.extend(models_std.panic(I, s2, 'overflow when adding duration to instant') if is_bad else [Outcome(s2, 'ret', Agg('SystemTime', (s,)))])
        return outs

    @I.model(r'^(std::time::)?SystemTime::duration_since$', 'SystemTime::duration_since: Err when the other time is later')
    def m_sys_since(I, st, f, args, fr):
        a, b = sys_n(I, st, args[0]), sys_n(I, st, args[1])
        outs = []
        for s2, lt in models_std.branch(I, st, I.binop('Lt', a, b, st)):
            outs.append(Outcome(s2, 'ret', models_std.err(Opaque('SystemTimeError')) if lt else models_std.ok(Agg('Duration', (I.binop('Sub', a, b, s2),)))))
        return outs

    def m_unwrap_or_default(I, st, f, args, fr):
        r = args[0]
        I.stats['models_used'].add('Result<Duration, SystemTimeError>::unwrap_or_default (Duration::default() = 0)')
        return I.ret(st, r.fields[0] if r.variant == 'Ok' else Agg('Duration', (I.mk_int(0, 'u128'),)))
    I.override.append((re.compile(r'^Result::<(std::time::)?Duration, (std::time::)?SystemTimeError>::unwrap_or_default$'), m_unwrap_or_default))

    @I.model(r'^<TKey as (\w+::)*BytesConvertable>::from_bytes$', 'the job key decoder: opaque (a key or a panic); what it is given is recorded')
    def m_key_from(I, st, f, args, fr):
        data = models_std.deref_val(I, st, args[0])
        s2 = st.fork()
        st.emit('KEY_FROM', tuple(data.fields), 'ok')
        s2.emit('KEY_FROM', tuple(data.fields), 'panic')
        return [Outcome(st, 'ret', Opaque('TKey', ident='the-key')), Outcome(s2, 'unwind', Opaque('key-decode-panic'))]

    @I.model(r'(^|::)Span::current$', 'tracing Span::current (opaque)')
    def m_span(I, st, f, args, fr):
        return I.ret(st, Opaque('Span'))

    def named_const(I, st, name):
        if name.endswith('UNIX_EPOCH'):
            return Agg('SystemTime', (I.mk_int(0, 'u128'),))
        return None
    I.hooks['named_const'] = named_const
    return I


def field(prog, v, sname, fname):
    return v.fields[prog.crate.struct(sname)['fields'].index(fname)]


def check(ctx, tier):
    prog, _info = world.load()
    dm = [b for n, b in prog.bodies.items() if n.endswith('::deserialize_meta')]
    fb = [b for n, b in prog.bodies.items() if n.endswith('::from_bytes') and (prog.impl_of.get(n) or {}).get('self_ty') == 'JobOptions']
    ib = [b for n, b in prog.bodies.items() if n.endswith('::into_bytes') and (prog.impl_of.get(n) or {}).get('self_ty') == 'JobOptions']
    if len(dm) != 1 or len(fb) != 1 or len(ib) != 1:
        raise Inconclusive('job metadata functions not found: %d %d %d' % (len(dm), len(fb), len(ib)))
    for b in (dm[0], fb[0], ib[0]):
        ctx.encoded(prog, b)
    seen = set()
    maxl = MAXL if tier == 'quick' else MAXL + 8
    for L in [None] + list(range(0, maxl + 1)):
        I = new_interp(prog)
        st = State()
        bs = [I.fresh_int('m%d' % i, 'u8', st) for i in range(L or 0)]
        arg = models_std.NONE if L is None else models_std.some(Agg('Vec', list(bs)))
        outs = I.run_body(st, dm[0], [arg])
        ctx.absorb(I)
        ctx.paths += len(outs)
        for k, o in enumerate(outs):
            name = 'jobmeta.decode.%s.path%d' % ('none' if L is None else 'len%d' % L, k)
            keyev = [e for e in o.st.trace if e[0] == 'KEY_FROM']
            cex = lambda m, L=L, bs=bs: replay(m, L, bs)
            if o.kind != 'ret':
                # only the user's key decoder may unwind (the message loop catches it, C19 drop slice)
                lp.record(ctx, name, o.st, {'only_the_key_decoder_may_panic': len(keyev) == 1 and keyev[0][2] == 'panic'}, 'C19.jobmeta', on_cex=cex)
                continue
            res = o.val
            short = L is None or L < 16
            claims = {'missing_or_short_metadata_is_an_error': (res.variant == 'Err') == short}
            if res.variant == 'Ok':
                key, opts = res.fields[0].fields
                claims['key_decoder_gets_exactly_the_bytes_after_the_options'] = len(keyev) == 1 and len(keyev[0][1]) == L - 16 and all(z3.eq(a.t, b.t) for a, b in zip(keyev[0][1], bs[16:]))
                claims['key_is_the_decoded_key'] = isinstance(key, Opaque) and key.ident == 'the-key'
                sub = field(prog, opts, 'JobOptions', 'submit_time')
                ttl = field(prog, opts, 'JobOptions', 'ttl')
                w0 = z3.ZeroExt(64, z3.Concat(*[b.t for b in bs[0:8]]))
                w1 = z3.ZeroExt(64, z3.Concat(*[b.t for b in bs[8:16]]))
                ctx.prove(name + '.submit_time_is_the_first_word', o.st.pc, sub.fields[0].t == w0, group='C19.jobmeta.options_from_the_wire_words', key='C19.jobmeta', on_cex=cex)
                if isinstance(ttl, Enum) and ttl.variant == 'Some':
                    ctx.prove(name + '.ttl_is_the_second_word', o.st.pc, z3.And(ttl.fields[0].fields[0].t == w1, w1 != 0), group='C19.jobmeta.options_from_the_wire_words', key='C19.jobmeta', on_cex=cex)
                    seen.add('ttl')
                else:
                    ctx.prove(name + '.no_ttl_iff_zero', o.st.pc, w1 == 0, group='C19.jobmeta.options_from_the_wire_words', key='C19.jobmeta', on_cex=cex)
                    seen.add('no_ttl')
                seen.add('decoded')
            else:
                claims['nothing_decoded_from_bad_metadata'] = not keyev
                seen.add('rejected')
            lp.record(ctx, name, o.st, claims, 'C19.jobmeta', on_cex=cex)
    # round trip of the options
    for with_ttl in (False, True):
        I = new_interp(prog)
        st = State()
        sub = I.fresh_int('submit', 'u128', st)
        st.assume(I.binop('Le', sub, I.mk_int((1 << 64) - 1, 'u128'), st))
        ttl = I.fresh_int('ttl', 'u128', st)
        st.assume(I.binop('Le', ttl, I.mk_int((1 << 64) - 1, 'u128'), st))
        st.assume(I.binop('Gt', ttl, I.mk_int(0, 'u128'), st))
        sd = prog.crate.struct('JobOptions')
        f = {k: Opaque('opt.' + k) for k in sd['fields']}
        f['submit_time'] = Agg('SystemTime', (sub,))
        f['factory_time'] = Agg('SystemTime', (I.mk_int(0, 'u128'),))
        f['worker_time'] = Agg('SystemTime', (I.mk_int(0, 'u128'),))
        f['ttl'] = models_std.some(Agg('Duration', (ttl,))) if with_ttl else models_std.NONE
        f['ttl_timer'] = models_std.NONE
        if 'span' in f:
            f['span'] = models_std.NONE
        outs = I.run_body(st, ib[0], [Agg('JobOptions', [f[k] for k in sd['fields']])])
        ctx.absorb(I)
        for k, o in enumerate(outs):
            name = 'jobmeta.roundtrip.%s.enc%d' % ('ttl' if with_ttl else 'nottl', k)
            okk = o.kind == 'ret' and isinstance(o.val, Agg) and len(o.val.fields) == 16
            lp.record(ctx, name, o.st, {'options_encode_to_16_bytes': okk}, 'C19.jobmeta.roundtrip', on_cex=lambda m: replay(m, None, []))
            if not okk:
                continue
            outs2 = I.run_body(o.st, fb[0], [o.val])
            for k2, o2 in enumerate(outs2):
                nm = '%s.dec%d' % (name, k2)
                if o2.kind != 'ret':
                    lp.record(ctx, nm, o2.st, {'decoding_own_encoding_never_panics': False}, 'C19.jobmeta.roundtrip', on_cex=lambda m: replay(m, None, []))
                    continue
                s2 = field(prog, o2.val, 'JobOptions', 'submit_time')
                t2 = field(prog, o2.val, 'JobOptions', 'ttl')
                ctx.prove(nm + '.submit_time_restored', o2.st.pc, s2.fields[0].t == sub.t, group='C19.jobmeta.roundtrip', key='C19.jobmeta.roundtrip', on_cex=lambda m: replay(m, None, []))
                if with_ttl:
                    okt = isinstance(t2, Enum) and t2.variant == 'Some'
                    ctx.prove(nm + '.ttl_restored', o2.st.pc, (t2.fields[0].fields[0].t == ttl.t) if okt else z3.BoolVal(False), group='C19.jobmeta.roundtrip', key='C19.jobmeta.roundtrip', on_cex=lambda m: replay(m, None, []))
                else:
                    ctx.prove(nm + '.no_ttl_restored', o2.st.pc, z3.BoolVal(isinstance(t2, Enum) and t2.variant == 'None'), group='C19.jobmeta.roundtrip', key='C19.jobmeta.roundtrip', on_cex=lambda m: replay(m, None, []))
                seen.add('roundtrip')
    for w in ('decoded', 'rejected', 'ttl', 'no_ttl', 'roundtrip'):
        ctx.note_witness('C19.jobmeta.' + w, w in seen)
    import C19_jobmeta_replay
    try:
        bad, n = C19_jobmeta_replay.battery()
        ctx.translator_validated += n
        if bad:
            rec = {'name': 'jobmeta.native_battery', 'group': 'C19.jobmeta', 'solver_s': 0.0, 'status': 'cex'}
            ctx.obligations.append(rec)
            ctx.handle_cex(rec['name'], 'C19.jobmeta.native', None, lambda _m: {'replayed': True, 'detail': 'real Job decoding on fixed metadata: %s' % bad[:3], 'replay': {'which': 'jobmeta', 'meta': None}}, rec)
    except RuntimeError as e:
        ctx.inconclusive.append('job metadata native battery unavailable: %s' % str(e)[-300:])
    ctx.bounds['jobmeta'] = 'metadata absent or 0..%d symbolic bytes; key decoder opaque; wall clock arbitrary; options round trip for every submit time / ttl up to u64 nanoseconds' % maxl


def replay(m, L, bs):
    import C19_jobmeta_replay
    return C19_jobmeta_replay.replay(m, L, bs)
