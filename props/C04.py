"""C04 - Failures are contained and reported to the supervisor exactly once (lifecycle traces + the lifecycle guard on its own)."""
import z3

import lifecycle as lc
import lifeprops as lp
import lifeoracles as lo
import actor_run as ar
import models_std
from exec import Inconclusive, State
from values import *


def job(sub, runtime, budget, with_sup):
    prog, info = lc.load()
    I1, a1, pm, S, I, a, res = lp.explore(sub, prog, runtime, budget, with_sup, cancel_points=True)
    tag = '%s.p%d.%s' % (runtime, budget, 'sup' if with_sup else 'nosup')
    seen = set()
    for k, r in enumerate(res):
        st = r['state']
        name = '%s.life.path%d' % (tag, k)
        claims = {'task_and_start_never_unwind': r['kind'] not in ('unwind', 'abort')}
        complete = r['kind'] in ('ready', 'cancelled')
        if r['kind'] == 'cancelled':
            seen.add('task_cancelled_at_a_suspension')
        claims.update(lo.terminal_claims(st.trace, complete, with_sup))
        lp.record(sub, name, st, claims, 'C04.lifecycle.thread_local' if 'ThreadLocal' in runtime else 'C04.lifecycle', sample={'phase': r['phase'], 'events': [e[1] for e in st.trace if e[0] == 'SUPEVT'],
                                                                'exits': [e[1] for e in st.trace if e[0] == 'LOOPEXIT']},
                  on_cex=lambda m, r=r: replay(tag, r['state'].trace))
        kinds = [e[1] for e in st.trace if e[0] == 'SUPEVT']
        if 'ActorFailed' in kinds:
            seen.add('failure_reported')
        if kinds[-1:] == ['ActorTerminated']:
            seen.add('termination_reported')
        if r['phase'] == 'start' and not kinds:
            seen.add('failed_start_silent')
        if any(e[0] == 'CAUGHT' for e in st.trace):
            seen.add('panic_caught')
    for w in ('failure_reported', 'termination_reported', 'failed_start_silent', 'panic_caught', 'task_cancelled_at_a_suspension'):
        if with_sup or w in ('failed_start_silent', 'panic_caught', 'task_cancelled_at_a_suspension'):
            sub.note_witness('C04.%s.%s' % (tag, w), w in seen)


def guard_check(ctx, prog):
    """ActorLifecycleGuard::{finish, drop} from every (armed, notify_on_cancel): the supervisor is notified exactly once over finish + Drop,
    on a bare Drop iff notify_on_cancel, with the cancellation event"""
    gd = prog.crate.struct('ActorLifecycleGuard')
    for armed in (True, False):
        for noc in (True, False):
            for mode in ('finish_then_drop', 'drop_only'):
                I = ar.new_interp(prog, 1)
                st = State()
                a = ar.Actor(prog, I, st, True, 2)
                # link a under sup so that notify_supervisor has a target
                st.cells[st.ghost[('mutex_inner', 'a_supervisor')]] = models_std.some(a.sup_cell)
                g = {'actor': a.cell, 'notify_on_cancel': z3.BoolVal(noc), 'armed': z3.BoolVal(armed)}
                gv = Agg('ActorLifecycleGuard', [g[k] for k in gd['fields']])
                gcell = st.alloc(gv)
                outs = [(st, 'ret')]
                if mode == 'finish_then_drop':
                    body = prog.find_fn('ActorLifecycleGuard::finish')
                    ev = Enum('SupervisionEvent', 'ActorFailed', 2, (a.cell, Opaque('err')))
                    # finish(self, event) consumes the guard: its body drops `self` at the end
                    outs = [(o.st, o.kind) for o in I.run_body(st, body, [gv, ev])]
                else:
                    outs = [(o.st, o.kind) for o in I.drop_value(st, gv, Ref(gcell, (), True))]
                ctx.absorb(I)
                for k, (s, kind) in enumerate(outs):
                    name = 'guard.%s.armed%d.cancelnotify%d.path%d' % (mode, armed, noc, k)
                    evs = [e for e in s.trace if e[0] == 'SUPEVT']
                    if not armed:
                        want = 0
                    elif mode == 'finish_then_drop':
                        want = 1
                    else:
                        want = 1 if noc else 0
                    claims = {'completes': kind == 'ret', 'notifies_exactly_as_often_as_required': len(evs) == want}
                    if mode == 'drop_only' and armed and noc and evs:
                        d = evs[0][2]
                        claims['cancellation_event_shape'] = (evs[0][1] == 'ActorTerminated' and d[0].variant == 'None' and d[1].variant == 'Some'
                                                              and isinstance(d[1].fields[0], Str) and d[1].fields[0].s == 'actor_task_cancelled')
                    if armed:
                        claims['status_stopped_after_cleanup'] = z3.is_true(z3.simplify(a.status(s) == 6))
                    lp.record(ctx, name, s, claims, 'C04.guard', sample={'mode': mode, 'armed': armed, 'notify_on_cancel': noc, 'events': [e[1] for e in evs]},
                              on_cex=lambda m, mode=mode, armed=armed, noc=noc: replay_guard(mode, armed, noc))
    ctx.note_witness('C04.guard.explored', True)


def replay(tag, trace):
    import life_replay
    return life_replay.replay_trace(tag, trace, 'C04')


def replay_guard(mode, armed, noc):
    import life_replay
    return life_replay.replay_guard(mode, armed, noc)


def run(ctx):
    prog, info = lc.load()
    insts = lp.instances(ctx.tier)
    if ctx.tier == 'quick':
        insts = insts + [('ActorRuntime', 1, False)]
    for rt in sorted({i[0] for i in insts}):
        lp.encoded(ctx, prog, rt)
    ctx.bounds.update(lp.COMMON_BOUNDS)
    ctx.bounds['instances'] = [dict(zip(('runtime', 'poll_budget', 'supervisor'), i)) for i in insts]
    ctx.bounds['outside'] += '; task cancellation at an arbitrary await (coroutine drop shims) is covered only through the guard check (Drop with notify_on_cancel), not per suspension state; monitors feature'
    ctx.assumptions += lp.COMMON_ASSUMPTIONS
    guard_check(ctx, prog)
    # the reported event is not filtered on its way into the supervisor's port, whatever the supervisor is doing
    import C04_deliver
    import C04_deliver_replay
    C04_deliver.check(ctx, prog)
    try:
        r = C04_deliver_replay.run_native()
        ctx.translator_validated += 1
        ctx.extra['deliver_native'] = r
        if r['violated']:
            rec = {'name': 'deliver.native_battery', 'group': 'C04.deliver', 'solver_s': 0.0, 'status': 'cex'}
            ctx.obligations.append(rec)
            ctx.handle_cex(rec['name'], 'C04.deliver.native', None, lambda _m: {'replayed': True, 'detail': 'real draining supervisor with two exiting children: %s' % r, 'replay': {'which': 'deliver'}}, rec)
    except RuntimeError as e:
        ctx.inconclusive.append('delivery native scenario unavailable: %s' % str(e)[-300:])
    ctx.parallel(job, insts)


def replay_file(path):
    import json
    import life_replay
    d = json.load(open(path))
    if (d.get('replay') or {}).get('which') == 'deliver':
        import C04_deliver_replay
        return C04_deliver_replay.replay_from_json(d)
    return life_replay.replay_from_json(d)
