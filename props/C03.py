"""C03 - Kill > stop > supervision > messages; stop is graceful, kill immediate.

Sequential mode over the real select! expansions: `listen_in_priority` and `run_with_signal` are polled once from a state in
which the readiness and content of every port is symbolic; "after kill()/stop() returned" = the corresponding oneshot is full at
every later poll, so symbolic readiness at every poll subsumes every arrival point.
"""
import z3

import lifecycle as lc
import models_std
from exec import State, Inconclusive, Outcome
from values import *

LISTEN = 'ActorPortSet::listen_in_priority'
RWS = 'ActorPortSet::run_with_signal'


def classify_listen(v):
    """(poll, result kind) of Poll<Result<ActorPortMessage, MessagingErr>>"""
    if v.variant == 'Pending':
        return 'pending'
    r = v.fields[0]
    if r.variant == 'Err':
        return 'err:' + r.fields[0].variant
    return 'ok:' + r.fields[0].variant


def check_listen(ctx, prog):
    I = lc.new_interp(prog)
    st = State()
    init = lc.symbolic_ports(I, st, 'p')
    pcell = st.alloc(lc.portset_value(prog))
    st, coro = lc.make_coro(I, st, prog, LISTEN, [Ref(pcell, (), True)])
    ccell = st.alloc(coro)
    outs = lc.poll_coro(I, st, ccell)
    ctx.absorb(I)
    ctx.paths += len(outs)
    sig, stop, sup, msg = init['sigq'], init['stopq'], init['supq'], init['msgq']
    seen = set()
    for k, o in enumerate(outs):
        name = 'listen.path%d' % k
        if o.kind != 'ret':
            ctx.prove(name + '.no_panic', o.st.pc, z3.BoolVal(False), group='C03.listen.no_panic', key='C03.listen')
            continue
        kind = classify_listen(o.val)
        seen.add(kind)
        recvs = [e for e in o.st.trace if e[0] == 'RECV']
        exp = {
            'ok:Signal': sig['full'],
            'err:ChannelClosed': z3.Or(z3.And(z3.Not(sig['full']), sig['txdrop']),
                                        z3.And(z3.Not(sig['ready']), z3.Not(stop['full']), stop['txdrop']),
                                        z3.And(z3.Not(sig['ready']), z3.Not(stop['ready']), z3.Not(sup['has']), sup['closed']),
                                        z3.And(z3.Not(sig['ready']), z3.Not(stop['ready']), z3.Not(sup['ready']), z3.Not(msg['has']), msg['closed'])),
            'ok:Stop': z3.And(z3.Not(sig['ready']), stop['full']),
            'ok:Supervision': z3.And(z3.Not(sig['ready']), z3.Not(stop['ready']), sup['has']),
            'ok:Message': z3.And(z3.Not(sig['ready']), z3.Not(stop['ready']), z3.Not(sup['ready']), msg['has']),
            'pending': z3.And(z3.Not(sig['ready']), z3.Not(stop['ready']), z3.Not(sup['ready']), z3.Not(msg['ready'])),
        }.get(kind)
        if exp is None:
            ctx.prove(name + '.unexpected_result_' + kind, o.st.pc, z3.BoolVal(False), group='C03.listen.result_kinds', key='C03.listen')
            continue
        smp = {'function': LISTEN, 'result': kind, 'claim': 'returned branch = highest-priority ready port; nothing else consumed'}
        ctx.prove(name + '.highest_priority_ready_port_wins', o.st.pc, exp, group='C03.listen.priority', key='C03.listen.priority', sample=smp,
                  on_cex=lambda m, init=init, kind=kind: cex_listen(m, init, kind))
        # only the chosen port was consumed
        chosen = {'ok:Signal': 'sigq', 'ok:Stop': 'stopq', 'ok:Supervision': 'supq', 'ok:Message': 'msgq'}.get(kind)
        others = [q for q in lc.PORTS if q != chosen]
        ctx.prove(name + '.no_other_port_consumed', o.st.pc, z3.And([lc.unchanged(o.st, init, q) for q in others if kind != 'err:ChannelClosed'] or [z3.BoolVal(True)]),
                  group='C03.listen.no_collateral_consumption', key='C03.listen.consumption', on_cex=lambda m, init=init, kind=kind: cex_listen(m, init, kind))
        ctx.prove(name + '.at_most_one_item_received', o.st.pc, z3.BoolVal(len(recvs) <= 1 and (len(recvs) == 1) == kind.startswith('ok:')), group='C03.listen.single_receive',
                  key='C03.listen.consumption', on_cex=lambda m, init=init, kind=kind: cex_listen(m, init, kind))
        rng = [e for e in o.st.trace if e[0] == 'RNG']
        ctx.prove(name + '.biased_no_random_start', o.st.pc, z3.BoolVal(len(rng) == 0), group='C03.listen.biased', key='C03.listen.priority',
                  on_cex=lambda m, init=init, kind=kind: cex_listen(m, init, kind))
    for kind in ('ok:Signal', 'ok:Stop', 'ok:Supervision', 'ok:Message', 'pending', 'err:ChannelClosed'):
        ctx.note_witness('C03.listen.reaches_' + kind, kind in seen)


def cex_listen(model, init, kind):
    import C03_replay
    ready = {q: {k: z3.is_true(model.eval(v, model_completion=True)) for k, v in init[q].items() if k in ('full', 'txdrop', 'has', 'closed')} for q in lc.PORTS}
    return C03_replay.replay_listen(ready, kind)


def check_run_with_signal(ctx, prog):
    I = lc.new_interp(prog, poll_budget=1)
    st = State()
    init = lc.symbolic_ports(I, st, 'p')
    pcell = st.alloc(lc.portset_value(prog))
    fut = I.user_future('wrapped')
    st, coro = lc.make_coro(I, st, prog, RWS, [Ref(pcell, (), True), fut])
    ccell = st.alloc(coro)
    outs = lc.poll_coro(I, st, ccell)
    ctx.absorb(I)
    ctx.paths += len(outs)
    sig = init['sigq']
    seen = set()
    for k, o in enumerate(outs):
        name = 'run_with_signal.path%d' % k
        polls = [e for e in o.st.trace if e[0] == 'CB' and e[1] == 'poll']
        cancelled = [e for e in o.st.trace if e[0] == 'CB' and e[1] == 'cancelled']
        on_cex = (lambda m, init=init: cex_rws(m, init))
        if o.kind == 'unwind':
            seen.add('unwind')
            ctx.prove(name + '.panic_only_from_the_wrapped_future', o.st.pc, z3.And(z3.Not(sig['ready']), z3.BoolVal(len(polls) == 1 and polls[0][4] == 'panic')),
                      group='C03.rws.unwind', key='C03.rws', on_cex=on_cex)
            continue
        if o.kind != 'ret':
            ctx.prove(name + '.completes', o.st.pc, z3.BoolVal(False), group='C03.rws.completes', key='C03.rws', on_cex=on_cex)
            continue
        v = o.val
        if v.variant == 'Pending':
            seen.add('pending')
            ctx.prove(name + '.pending_iff_no_signal_and_future_pending', o.st.pc, z3.And(z3.Not(sig['ready']), z3.BoolVal(len(polls) == 1 and polls[0][4] == 'pending')),
                      group='C03.rws.pending', key='C03.rws', on_cex=on_cex)
            continue
        r = v.fields[0]
        if r.variant == 'Err':
            seen.add('signal')
            ctx.prove(name + '.signal_preempts_without_polling_the_future', o.st.pc, z3.And(sig['ready'], z3.BoolVal(len(polls) == 0)),
                      group='C03.rws.signal_first', key='C03.rws.signal_first', on_cex=on_cex,
                      sample={'function': RWS, 'claim': 'signal port ready => Err(signal), wrapped future not polled, and dropped'})
            ctx.prove(name + '.signal_value_is_kill', o.st.pc, z3.BoolVal(isinstance(r.fields[0], Enum) and r.fields[0].variant == 'Kill'), group='C03.rws.signal_value',
                      key='C03.rws', on_cex=on_cex)
        else:
            seen.add('completed')
            ctx.prove(name + '.future_result_passed_through', o.st.pc, z3.And(z3.Not(sig['ready']), z3.BoolVal(len(polls) == 1 and polls[0][4] in ('ok', 'err'))),
                      group='C03.rws.pass_through', key='C03.rws', on_cex=on_cex)
            ctx.prove(name + '.signal_port_untouched', o.st.pc, lc.unchanged(o.st, init, 'sigq'), group='C03.rws.no_consumption', key='C03.rws', on_cex=on_cex)
        ctx.prove(name + '.other_ports_untouched', o.st.pc, z3.And([lc.unchanged(o.st, init, q) for q in ('stopq', 'supq', 'msgq')]), group='C03.rws.no_consumption', key='C03.rws',
                  on_cex=on_cex)
        rng = [e for e in o.st.trace if e[0] == 'RNG']
        ctx.prove(name + '.biased_no_random_start', o.st.pc, z3.BoolVal(len(rng) == 0), group='C03.rws.biased', key='C03.rws.signal_first', on_cex=on_cex)
    for kind in ('signal', 'completed', 'pending', 'unwind'):
        ctx.note_witness('C03.rws.reaches_' + kind, kind in seen)


def cex_rws(model, init):
    import C03_replay
    sig = {k: z3.is_true(model.eval(v, model_completion=True)) for k, v in init['sigq'].items() if k in ('full', 'txdrop')}
    return C03_replay.replay_rws(sig)


def run(ctx):
    prog, info = lc.load()
    for fn in (LISTEN, RWS):
        b = prog.find_fn(fn)
        if b is None:
            raise Inconclusive('function not found in dump: ' + fn)
        ctx.encoded(prog, b)
    ctx.bounds.update({'polls': 'one poll of each select! from an arbitrary port state (inductive: every later poll starts from some port state)',
                       'outside': 'the async-std select! expansion; tokio channel / oneshot internals (contracts trusted); the dispatch of the selected item and the five '
                                  'hook sites are checked with the lifecycle traces (C01/C04)'})
    ctx.assumptions += ['tokio oneshot receiver poll: Ready(Ok(v)) if a value was sent, Ready(Err) if the sender was dropped, else Pending; a value is yielded at most once',
                        'tokio mpsc recv poll: Ready(Some(front)) if non-empty, Ready(None) if closed and empty, else Pending',
                        'poll_budget_available is Ready; thread_rng_n(n) returns any value < n (only reached if `biased;` is removed)',
                        'user futures are opaque: each poll returns Pending / Ready(Ok) / Ready(Err) or panics']
    check_listen(ctx, prog)
    check_run_with_signal(ctx, prog)
    import C03_dispatch
    C03_dispatch.check(ctx, prog)
    C03_dispatch.check(ctx, prog, 'ThreadLocalActorRuntime')     # the thread-local twin of process_message
    # what "stop() / kill() has returned" means: the request is in its one-shot port, whatever the actor's status
    import C03_request
    import C03_request_replay
    C03_request.check(ctx, prog)
    try:
        res = C03_request_replay.battery()
        ctx.translator_validated += len(res)
        bad = [r for r in res if r['violated']]
        ctx.extra['request_native_battery'] = res
        if bad:
            rec = {'name': 'request.native_battery', 'group': 'C03.request', 'solver_s': 0.0, 'status': 'cex'}
            ctx.obligations.append(rec)
            ctx.handle_cex(rec['name'], 'C03.request.native', None, lambda _m: {'replayed': True, 'detail': 'real actor, parked handler, backlog: %s' % bad[:3], 'replay': {'which': 'request'}}, rec)
    except RuntimeError as e:
        ctx.inconclusive.append('request native battery unavailable: %s' % str(e)[-300:])


def replay_file(path):
    import json
    import C03_replay
    d = json.load(open(path))
    if (d.get('replay') or {}).get('which') == 'request':
        import C03_request_replay
        return C03_request_replay.replay_from_json(d)
    return C03_replay.replay_from_json(d)
