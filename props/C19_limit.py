"""C19 (limit plumbing) - the inbound frame limit a NodeServer was configured with is the limit every session it opens reads with.

`checked_frame_length` / `read_network_message` are decided for an arbitrary limit by the other slices; this one follows the limit from the server to the session:
`NodeServer::handle` is executed for both ways a connection is opened (`ConnectionOpened` - TCP / TLS - and `ConnectionOpenedExternal` - a user supplied
transport) with the configured limit symbolic and `Actor::spawn_linked` as the environment (it records the NodeSession handler it is given and fails or
succeeds): the handler carries exactly the server's limit. The later hops (NodeSession::pre_start -> Session -> SessionReader) are observed natively on every
run: a node with a small limit closes an externally injected connection from the 8-byte header of an oversized frame, and keeps a frame within the limit."""
import re
import z3

import lifecycle as lc
import lifeprops as lp
import cluster as cl
import C17_gates as gates
import models_std
from exec import State, Outcome, Inconclusive
from values import *

FN = '<NodeServer as Actor>::handle'


def check(ctx, prog):
    body = prog.find_fn(FN)
    if body is None:
        raise Inconclusive('NodeServer::handle not found')
    ctx.encoded(prog, body)
    for f in ('NodeSession::new', 'NodeSession::with_max_inbound_frame_size'):
        b = prog.find_fn(f)
        if b is None:
            raise Inconclusive(f + ' not found')
        ctx.encoded(prog, b)
    seen = set()
    for which in ('ConnectionOpened', 'ConnectionOpenedExternal'):
        I = gates.session_interp(prog, effects=False)
        spawned = []

        def spawn(I, st, f, args, fr, spawned=spawned):
            spawned.append(args[1])
            st.emit('SPAWN_SESSION', args[1])
            return I.ret(st, Opaque('spawnfut', info={'n': fresh_id()}))
        I.override.append((re.compile(r'spawn_linked(::<.*>)?$'), spawn))
        prev = I.hooks.get('poll_other')

        def poll_other(I, st, v, cell, path, cx, fr, prev=prev):
            if isinstance(v, Opaque) and v.tag == 'spawnfut':
                s2 = st.fork()
                st.emit('SPAWN_RESULT', 'err')
                s2.emit('SPAWN_RESULT', 'ok')
                okv = models_std.ok(Agg('()', (Opaque('ActorRef', ident='new-session'), Opaque('JoinHandle'))))
                return [Outcome(st, 'ret', models_std.ready(models_std.err(Opaque('SpawnErr')))), Outcome(s2, 'ret', models_std.ready(okv))]
            return prev(I, st, v, cell, path, cx, fr) if prev else None
        I.hooks['poll_other'] = poll_other

        @I.model(r'peer_addr$|peer_label$|local_label$|ClusterBidiStream>::split$|(^|::)split$', 'transport accessors (opaque)')
        def m_transport(I, st, f, args, fr):
            if f.endswith('split'):
                return I.ret(st, Agg('()', (Opaque('BoxRead'), Opaque('BoxWrite'))))
            if f.endswith('peer_addr'):
                return I.ret(st, Opaque('SocketAddr', ident='peer-addr'))
            return I.ret(st, models_std.some(Str('label')))
        I.override.append((re.compile(r'(^|::)peer_addr$'), lambda I, st, f, args, fr: I.ret(st, Opaque('SocketAddr', ident='peer-addr'))))
        @I.model(r'ActorRef::<.*>::get_cell$|ActorRef::<.*>::get_id$|<.* as ToString>::to_string$|<.* as Clone>::clone$', 'accessors of opaque handles (opaque)')
        def m_acc(I, st, f, args, fr):
            if f.endswith('clone'):
                return NotImplemented
            return I.ret(st, Opaque('acc', ident=(f.split('::')[-1], getattr(models_std.deref_val(I, st, args[0]), 'ident', None))))
        @I.model(r'^<Box<.*> as Drop>::drop$', 'Box shell freed after its content was moved out')
        def m_boxdrop(I, st, f, args, fr):
            return I.ret(st, UNIT)
        st = State()
        limit = I.fresh_int('configured_limit', 'u64', st)
        server = cl.record(prog, 'NodeServer', cookie=Str('cookie'), max_inbound_frame_size=limit)
        state = cl.record(prog, 'NodeServerState', node_sessions=Agg('HashMap', ()), subscriptions=Agg('HashMap', ()), node_id_counter=I.mk_int(3, 'u64'),
                          this_node_name=cl.record(prog, 'NameMessage', 'out/auth.rs', name=Str('this')))
        sc = st.alloc(state)
        stream = BoxV(st.alloc(Opaque('NetworkStream' if which == 'ConnectionOpened' else 'ExternalStream', ident='the-stream')), 'Box')
        msg = cl.variant(prog, 'NodeServerMessage', which, (stream, z3.BoolVal(True)))
        st, coro = lc.make_coro(I, st, prog, FN, [Ref(st.alloc(server), ()), Opaque('ActorRef', ident='myself'), msg, Ref(sc, (), True)])
        cc = st.alloc(coro)
        done = gates.drive(I, st, cc, 4)
        ctx.absorb(I)
        ctx.paths += len(done)
        for k, (s, kind, v) in enumerate(done):
            name = 'limit.%s.path%d' % (which, k)
            cex = lambda m: replay()
            sp = [e[1] for e in s.trace if e[0] == 'SPAWN_SESSION']
            claims = {'handler_completes': kind == 'ready', 'exactly_one_session_is_spawned_for_the_connection': len(sp) == 1}
            lp.record(ctx, name, s, claims, 'C19.limit', on_cex=cex)
            if len(sp) == 1 and isinstance(sp[0], Agg) and sp[0].ty == 'NodeSession':
                got = cl.field(prog, sp[0], 'NodeSession', 'max_inbound_frame_size')
                gt = got.t if isinstance(got, Sc) else got
                ctx.prove(name + '.the_session_reads_with_the_limit_the_server_was_configured_with', s.pc, gt == limit.t, group='C19.limit.the_session_carries_the_configured_limit',
                          key='C19.limit.the_session_carries_the_configured_limit', on_cex=cex, sample={'message': which, 'claim': 'NodeSession.max_inbound_frame_size == NodeServer.max_inbound_frame_size (symbolic)'})
                seen.add(which)
            else:
                lp.record(ctx, name, s, {'the_spawned_handler_is_a_node_session': False}, 'C19.limit', on_cex=cex)
    ctx.note_witness('C19.limit.both_ways_of_opening_a_connection_explored', seen == {'ConnectionOpened', 'ConnectionOpenedExternal'})
    ctx.bounds['limit'] = ('NodeServer::handle for ConnectionOpened and ConnectionOpenedExternal, configured limit symbolic (u64), Actor::spawn_linked as environment (fails / succeeds); '
                           'the hops from the NodeSession to the reader are observed natively (external transport), not executed symbolically')


def run_native():
    import native
    res = []
    for (lim, dec, want) in ((64, 4096, '1'), (64, 65, '1'), (64, 32, '0'), (4096, 4096, '0')):
        out, _, rc, err = native.run('frame_limit', limit=lim, declared=dec, timeout=60)
        if rc != 0:
            raise RuntimeError('native frame_limit failed: ' + err[-300:])
        res.append({'limit': lim, 'declared': dec, 'closed': out.get('closed'), 'violated': [] if out.get('closed') == want else
                    ['a frame of %d bytes on a node limited to %d bytes: connection closed=%s, expected %s' % (dec, lim, out.get('closed'), want)]})
    return res


def replay():
    res = run_native()
    bad = [r for r in res if r['violated']]
    return {'replayed': bool(bad), 'detail': 'native node with a small frame limit, external transport, header-only frames: %s' % (bad or res), 'replay': {'scenario': 'frame_limit', 'prop': 'C19', 'which': 'limit'}}
