"""C19, engine-M slice: the decoder and encoder that `#[derive(RactorClusterMessage)]` generates (ractor_cluster_derive/src/codegen.rs of the tree under
test), executed on the MIR of a probe enum with every supported variant shape (unit, tuple, struct; reply port last, first, named).

  deserialize(SerializedMessage)   the variant tag is symbolic (any string), the argument buffer is 0..MAXL symbolic bytes, per-field conversions
                                   (`BytesConvertable::from_bytes`) are opaque and may panic: the decoder never unwinds; it answers Ok only for the tag of a
                                   variant of the right kind (cast / call) whose buffer is exactly the concatenation of one (8-byte big-endian length, data)
                                   record per data field - no short, no trailing bytes - and every conversion got exactly its record and returned
  serialize -> deserialize         per variant, field conversions opaque: the decoder is handed, field by field, exactly the bytes `into_bytes` produced and
                                   rebuilds the same variant with the fields in their places
"""
import os
import re
import z3

import mirdump
import mirparse
import srcscan
import models_std
import models_sync
import models_ctor
import models_coll
import models_async
import lifeprops as lp
from exec import Interp, Program, State, Outcome, Inconclusive, Unmodelled
from values import *

MAXL = 20
SRC = '/verif/derive_probe'
_prog = {}


def load():
    if 'p' in _prog:
        return _prog['p']
    path, h, secs, cached = mirdump.dump_external('derive_probe', SRC, ('ractor_cluster_derive',))
    bodies, errs = mirparse.parse_file(path)
    cr = srcscan.Crate(SRC, features=set(), extra_cfg=())
    msg = os.path.join(mirdump.REPO, 'ractor', 'src', 'message.rs')
    cr.features = {'cluster'}
    cr.add_source('EXT/ractor/src/message.rs', open(msg).read())
    cr.features = set()
    prog = Program(bodies, cr)
    prog.rescan_impls()
    prog.info = {'crate': 'derive_probe (external probe crate: derive output of ractor_cluster_derive)', 'dump': path, 'dump_hash': h, 'dump_s': round(secs, 1), 'dump_cached': cached,
                 'bodies': len(bodies), 'parse_errors': [(ln, e[:200]) for ln, e in errs]}
    prog.parse_errors = errs
    _prog['p'] = prog
    return prog


def probe_variants(prog):
    """[(name, kind, [field types], port position or None)] read from the probe source"""
    d = prog.crate.enum('Probe')
    if not d:
        raise Inconclusive('probe enum not found')
    out = []
    for (v, idx, kind, fl) in d['variants']:
        tys = [f[1] if isinstance(f, (tuple, list)) else f for f in fl]
        port = next((i for i, t in enumerate(tys) if 'RpcReplyPort' in str(t)), None)
        out.append((v, idx, kind, tys, port))
    return out


# the probe enum of /verif/derive_probe/src/lib.rs: variant -> (kind, data field types in wire order, positions of the data fields in the constructed variant, position of the port)
PROBE = {
    'Unit': ('cast', [], [], None),
    'One': ('cast', ['u64'], [0], None),
    'Two': ('cast', ['u32', 'String'], [0, 1], None),
    'Named': ('cast', ['u16', 'Vec<u8>'], [0, 1], None),
    'Ask': ('call', [], [], 0),
    'AskWith': ('call', ['u8'], [0], 1),
    'PortFirst': ('call', ['u64'], [1], 0),
    'NamedAsk': ('call', ['u64'], [0], 1),
}


def check_probe(prog):
    d = {v: (kind, len(fl)) for (v, idx, kind, fl) in prog.crate.enum('Probe')['variants']}
    for v, (k, tys, pos, port) in PROBE.items():
        if v not in d or d[v][1] != len(tys) + (0 if port is None else 1):
            raise Inconclusive('probe enum and its description disagree on ' + v)
    if set(d) != set(PROBE):
        raise Inconclusive('probe enum has other variants than described')


class SymStr:
    """a string about which only comparisons with literals are known (one Bool per literal, at most one true)"""
    def __init__(self, name):
        self.name = name
        self.lits = {}

    def is_lit(self, st, lit):
        if lit not in self.lits:
            b = z3.Bool('%s_is_%s' % (self.name, lit))
            for other in self.lits.values():
                st.pc.append(z3.Not(z3.And(b, other)))
            self.lits[lit] = b
        return self.lits[lit]


def new_interp(prog):
    I = Interp(prog, mode='bv', loop_bound=MAXL + 12)
    models_std.install(I)
    models_sync.install(I)
    models_ctor.install(I)
    models_coll.install(I)
    models_async.install(I, 1)

    def sym_of(I, st, v):
        v = models_std.deref_val(I, st, v) if isinstance(v, Ref) else v
        return v

    def m_str_eq(I, st, f, args, fr):
        a, b = sym_of(I, st, args[0]), sym_of(I, st, args[1])
        for x, y in ((a, b), (b, a)):
            if isinstance(x, Opaque) and isinstance(x.info, SymStr) and isinstance(y, Str):
                r = x.info.is_lit(st, y.s)
                return I.ret(st, r if f.endswith('eq') else z3.Not(r))
        return NotImplemented
    I.override.append((re.compile(r'^<str as PartialEq>::(eq|ne)$'), m_str_eq))

    def m_as_str(I, st, f, args, fr):
        v = sym_of(I, st, args[0])
        if isinstance(v, Opaque) and isinstance(v.info, SymStr):
            return I.ret(st, args[0])
        return NotImplemented
    I.override.append((re.compile(r'^String::as_str$|^<String as Deref>::deref$'), m_as_str))

    @I.model(r'^<(.*) as (ractor::)?(serialization::)?BytesConvertable>::from_bytes$', 'BytesConvertable::from_bytes of a field type: opaque (returns a value or panics); what it is given is recorded')
    def m_from_bytes(I, st, f, args, fr):
        ty = re.match(r'^<(.*) as ', f).group(1)
        data = sym_of(I, st, args[0])
        n = len([e for e in st.trace if e[0] == 'FROM_BYTES'])
        s2 = st.fork()
        st.emit('FROM_BYTES', ty, tuple(data.fields), 'ok')
        s2.emit('FROM_BYTES', ty, tuple(data.fields), 'panic')
        return [Outcome(st, 'ret', Opaque('decoded', ident=('field', n))), Outcome(s2, 'unwind', Opaque('decode-panic'))]

    @I.model(r'^<(.*) as (ractor::)?(serialization::)?BytesConvertable>::into_bytes$', 'BytesConvertable::into_bytes of a field type: opaque (the bytes are fixed by the scenario)')
    def m_into_bytes(I, st, f, args, fr):
        v = sym_of(I, st, args[0])
        enc = st.ghost.get('encodings', {})
        key = getattr(v, 'ident', None)
        if key not in enc:
            raise Unmodelled('into_bytes of an unexpected value %r' % (v,))
        st.emit('INTO_BYTES', re.match(r'^<(.*) as ', f).group(1), key)
        return I.ret(st, Agg('Vec', list(enc[key])))

    @I.model(r'(^|::)concurrency::spawn(::<.*>)?$', 'ractor::concurrency::spawn of the reply bridge task (recorded, not run: the bridge is C09 / C20 matter)')
    def m_spawn(I, st, f, args, fr):
        st.emit('SPAWN', args[0])
        return I.ret(st, Opaque('JoinHandle'))

    @I.model(r'(^|::)RpcReplyPort::<.*>::get_timeout$', 'RpcReplyPort::get_timeout (any)')
    def m_get_timeout(I, st, f, args, fr):
        s2 = st.fork()
        return [Outcome(st, 'ret', models_std.NONE), Outcome(s2, 'ret', models_std.some(Opaque('Duration', ident='port-timeout')))]

    @I.model(r'^<RpcReplyPort<.*> as From<.*>>::from$', 'RpcReplyPort::from(sender [, timeout])')
    def m_port_from(I, st, f, args, fr):
        return I.ret(st, Opaque('RpcReplyPort', ident=('bridge-port', len([e for e in st.trace if e[0] == 'SPAWN']))))

    @I.model(r'(^|::)oneshot(::<.*>)?$', 'ractor::concurrency::oneshot() (a fresh channel)')
    def m_oneshot(I, st, f, args, fr):
        return I.ret(st, Agg('()', [Opaque('oneshot-tx'), Opaque('oneshot-rx')]))
    return I


def message(prog, kind, tag, args_bytes):
    import cluster as cl
    vec = Agg('Vec', list(args_bytes))
    if kind == 'cast':
        return cl.variant(prog, 'SerializedMessage', 'Cast', (tag, vec, models_std.NONE))
    if kind == 'call':
        return cl.variant(prog, 'SerializedMessage', 'Call', (tag, vec, Opaque('RpcReplyPort', ident='wire-reply-port'), models_std.NONE))
    return cl.variant(prog, 'SerializedMessage', 'CallReply', (Opaque('u64'), vec))


def be_value(bytes_):
    return z3.Concat(*[b.t for b in bytes_]) if len(bytes_) > 1 else bytes_[0].t


def decode_claims(ctx, I, name, o, kind, tag, bs, on_cex):
    """claims for one outcome of deserialize; returns the variant decoded (or None)"""
    L = len(bs)
    if o.kind != 'ret':
        lp.record(ctx, name, o.st, {'decoder_never_unwinds': False}, 'C19.derive', on_cex=on_cex)
        return None
    res = o.val
    if not (isinstance(res, Enum) and res.variant in ('Ok', 'Err')):
        raise Inconclusive('unexpected decoder result %r' % (res,))
    if res.variant == 'Err':
        lp.record(ctx, name, o.st, {'decoder_never_unwinds': True}, 'C19.derive', on_cex=on_cex)
        return None
    v = res.fields[0]
    if not (isinstance(v, Enum) and v.variant in PROBE):
        raise Inconclusive('decoder built %r' % (v,))
    vk, tys, pos, port = PROBE[v.variant]
    evs = [e for e in o.st.trace if e[0] == 'FROM_BYTES']
    claims = {'decoder_never_unwinds': True,
              'message_kind_matches_the_variant': vk == kind,
              'every_field_converted_once_in_wire_order': [e[1] for e in evs] == tys and all(e[3] == 'ok' for e in evs)}
    ptr = 0
    framing = True
    for i, e in enumerate(evs):
        data = e[2]
        if ptr + 8 + len(data) > L:
            framing = False
            break
        # the 8 bytes in front of the data are its big-endian length, the data are the bytes that follow (same terms)
        ctx.prove('%s.field%d_length_prefix' % (name, i), o.st.pc, be_value(bs[ptr:ptr + 8]) == z3.BitVecVal(len(data), 64), group='C19.derive.length_prefix_is_the_data_length', key='C19.derive', on_cex=on_cex)
        if not all(z3.eq(a.t, b.t) for a, b in zip(data, bs[ptr + 8:ptr + 8 + len(data)])):
            framing = False
        ptr += 8 + len(data)
    claims['buffer_is_exactly_the_field_records_no_short_no_trailing_bytes'] = framing and ptr == L
    flds = list(v.fields)
    placed = len(flds) == len(tys) + (0 if port is None else 1)
    if placed:
        for i, p in enumerate(pos):
            x = flds[p]
            placed = placed and isinstance(x, Opaque) and x.ident == ('field', i)
        if port is not None:
            x = flds[port]
            placed = placed and isinstance(x, Opaque) and x.tag == 'RpcReplyPort'
    claims['fields_land_in_their_places'] = placed
    lp.record(ctx, name, o.st, claims, 'C19.derive', on_cex=on_cex, sample={'variant': v.variant, 'buffer_len': L, 'kind': kind})
    if isinstance(tag, Opaque) and isinstance(tag.info, SymStr):
        ctx.prove(name + '.tag_names_the_variant', o.st.pc, tag.info.is_lit(o.st, v.variant), group='C19.derive.ok_only_for_the_named_variant', key='C19.derive', on_cex=on_cex)
    return v.variant


def check_decode(ctx, prog, maxl):
    body = [b for n, b in prog.bodies.items() if n.endswith('>::deserialize')]
    if len(body) != 1:
        raise Inconclusive('generated deserialize not found')
    body = body[0]
    ctx.encoded(prog, body)
    seen = set()
    for kind in ('cast', 'call', 'reply'):
        for L in range(0, maxl + 1):
            I = new_interp(prog)
            st = State()
            tag = Opaque('String', info=SymStr('tag'))
            bs = [I.fresh_int('b%d' % i, 'u8', st) for i in range(L)]
            outs = I.run_body(st, body, [message(prog, kind, tag, bs)])
            ctx.absorb(I)
            ctx.paths += len(outs)
            for k, o in enumerate(outs):
                name = 'derive.decode.%s.len%d.path%d' % (kind, L, k)
                v = decode_claims(ctx, I, name, o, kind, tag, bs, on_cex=lambda m, kind=kind, L=L, bs=bs, o=o: replay_decode(m, kind, L, bs, o))
                if v:
                    seen.add(v)
    for v in PROBE:
        ctx.note_witness('derive.decodes.' + v, v in seen)


def replay_decode(m, kind, L, bs, o):
    import C19_derive_replay
    return C19_derive_replay.replay_decode(m, kind, L, bs, o)


def check_roundtrip(ctx, prog, lens=(0, 1, 3)):
    """serialize a value of every variant (field conversions opaque: field i encodes to k_i symbolic bytes), feed the result to deserialize"""
    import itertools
    import cluster as cl
    ser = [b for n, b in prog.bodies.items() if n.endswith('>::serialize')]
    de = [b for n, b in prog.bodies.items() if n.endswith('>::deserialize')]
    if len(ser) != 1 or len(de) != 1:
        raise Inconclusive('generated serialize / deserialize not found')
    ctx.encoded(prog, ser[0])
    pv = {v: idx for (v, idx, kind, fl) in prog.crate.enum('Probe')['variants']}
    for v, (vk, tys, pos, port) in PROBE.items():
        for ks in itertools.product(lens, repeat=len(tys)):
            I = new_interp(prog)
            I.allow_slice_copy_mut = False
            st = State()
            n = len(tys) + (0 if port is None else 1)
            flds = [None] * n
            enc = {}
            for i, p in enumerate(pos):
                flds[p] = Opaque('field-value', ident=('in', i))
                enc[('in', i)] = [I.fresh_int('e%d_%d' % (i, j), 'u8', st) for j in range(ks[i])]
            if port is not None:
                flds[port] = Opaque('RpcReplyPort', ident='user-port')
            st.ghost['encodings'] = enc
            outs = I.run_body(st, ser[0], [Enum('Probe', v, pv[v], tuple(flds))])
            ctx.absorb(I)
            for k, o in enumerate(outs):
                name = 'derive.roundtrip.%s.%s.ser%d' % (v, 'x'.join(map(str, ks)) or '-', k)
                okk = o.kind == 'ret' and isinstance(o.val, Enum) and o.val.variant == 'Ok'
                if not okk and o.kind == 'ret' and any(e[0] == 'ALLOC_FAILED' for e in o.st.trace):
                    continue     # allocation failure is reported as Err: allowed
                sm = o.val.fields[0] if okk else None
                claims = {'encoder_succeeds': okk}
                if okk:
                    claims['wire_kind_matches_the_variant'] = isinstance(sm, Enum) and sm.variant == ('Cast' if vk == 'cast' else 'Call')
                    into = [e for e in o.st.trace if e[0] == 'INTO_BYTES']
                    claims['every_field_encoded_once_in_order'] = [e[1] for e in into] == tys and [e[2] for e in into] == [('in', i) for i in range(len(tys))]
                lp.record(ctx, name, o.st, claims, 'C19.derive.roundtrip', on_cex=lambda m, v=v: replay_roundtrip(v))
                if not okk or not all(claims.values()):
                    continue
                # decode what was produced (same state: the buffer is the one the encoder built)
                outs2 = I.run_body(o.st, de[0], [sm])
                ctx.paths += len(outs2)
                for k2, o2 in enumerate(outs2):
                    nm = '%s.de%d' % (name, k2)
                    evs = [e for e in o2.st.trace if e[0] == 'FROM_BYTES']
                    if any(e[3] == 'panic' for e in evs):
                        continue     # a conversion that panics on the bytes its own encoder produced: the user's codec is not a codec; outside the claim
                    r = o2.val if o2.kind == 'ret' else None
                    back = r.fields[0] if isinstance(r, Enum) and r.variant == 'Ok' else None
                    c2 = {'decoder_accepts_what_the_encoder_produced': back is not None and isinstance(back, Enum) and back.variant == v}
                    if c2['decoder_accepts_what_the_encoder_produced']:
                        c2['each_conversion_gets_exactly_the_bytes_its_encoder_produced'] = len(evs) == len(tys) and all(
                            e[1] == tys[i] and len(e[2]) == len(enc[('in', i)]) and all(z3.eq(a.t, b.t) for a, b in zip(e[2], enc[('in', i)])) for i, e in enumerate(evs))
                        bf = list(back.fields)
                        c2['fields_return_to_their_places'] = len(bf) == n and all(isinstance(bf[p], Opaque) and bf[p].ident == ('field', i) for i, p in enumerate(pos)) and (
                            port is None or (isinstance(bf[port], Opaque) and bf[port].tag == 'RpcReplyPort'))
                    lp.record(ctx, nm, o2.st, c2, 'C19.derive.roundtrip', on_cex=lambda m, v=v: replay_roundtrip(v))


def replay_roundtrip(v):
    import C19_derive_replay
    return C19_derive_replay.replay_roundtrip(v)


def check(ctx, tier):
    prog = load()
    check_probe(prog)
    if prog.parse_errors:
        raise Inconclusive('MIR parse errors in the probe dump: %r' % (prog.parse_errors[:2],))
    maxl = 20 if tier == 'quick' else 26
    check_decode(ctx, prog, maxl)
    check_roundtrip(ctx, prog, lens=(0, 1, 3) if tier == 'quick' else (0, 1, 2, 5))
    import C19_derive_replay
    try:
        bad, n = C19_derive_replay.battery()
        ctx.translator_validated += n
        ctx.extra['derive_native_battery'] = {'inputs': n, 'violations': bad}
        if bad:
            rec = {'name': 'derive.native_battery', 'group': 'C19.derive', 'solver_s': 0.0, 'status': 'cex'}
            ctx.obligations.append(rec)
            ctx.handle_cex(rec['name'], 'C19.derive.native', None, lambda _m: {'replayed': True, 'detail': 'real generated decoder on fixed inputs: %s' % bad[:3], 'replay': {'which': 'derive_battery'}}, rec)
    except RuntimeError as e:
        ctx.inconclusive.append('derive native battery unavailable: %s' % str(e)[-300:])
    ctx.bounds['derive'] = ('probe enum with 8 variants (unit, tuple, struct; reply port last / first / named), argument buffers of 0..%d symbolic bytes, the variant tag symbolic (any string), '
                            'cast / call / call-reply messages; field conversions opaque (any value or a panic); round trip with field encodings of %s symbolic bytes' % (maxl, 'lengths 0,1,3' if tier == 'quick' else 'lengths 0,1,2,5'))
    ctx.assumptions.append('derive slice: the MIR executed is the derive output for /verif/derive_probe/src/lib.rs generated by ractor_cluster_derive of the tree under test; closures of one macro '
                           'expansion are told apart by creation order and capture names (accepted only if every pair agrees); the reply bridge task is recorded, not run')
