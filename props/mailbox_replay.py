"""Native replay of mailbox schedules (C02 / C07): runs the real send / drain code on OS threads under the turn-stile and
re-evaluates the property's claims on what actually happened."""
import random

import native
import mailbox as mb


def run_native(n_senders, n_msgs, n_drainers, n_stoppers, status0, thread_seq, serialized=()):
    out, lines, rc, err = native.run('mailbox', senders=n_senders, msgs=n_msgs, drainers=n_drainers, stoppers=n_stoppers, status0=status0,
                                     schedule=thread_seq if thread_seq else [99], serialized=list(serialized), timeout=60)
    if rc != 0:
        raise RuntimeError('native mailbox replay failed: ' + err[-400:])
    res = {}
    T = n_senders + n_drainers
    for t in range(T):
        res[t] = [int(x) for x in out.get('thread%d' % t, '').split(',') if x]
    q = [int(x) for x in out.get('queue', '').split(',') if x]
    fl = [int(x) for x in out.get('flushed', '').split(',') if x]
    log = [(int(x.split(':', 1)[0]), x.split(':', 1)[1]) for x in out.get('log', '').split(',') if x]
    return {'results': res, 'queue': q, 'flushed': fl, 'status': int(out['status']), 'word': int(out['word']), 'log': log}


def concrete_oracle(prop, n_senders, n_msgs, n_drainers, n_stoppers, obs):
    """the claims of C07/C02 on a concrete native run; returns list of violated claim names"""
    bad = []
    delivered = obs['flushed'] + obs['queue']       # everything that ever sat in the queue, in order
    markers = [i for i, x in enumerate(delivered) if x == mb.MARKER]
    if n_drainers and n_stoppers == 0:
        if len(markers) != 1:
            bad.append('exactly_one_marker')
        if obs['status'] < 4:
            bad.append('status_at_least_draining')
    if len(markers) > 1:
        bad.append('exactly_one_marker')
    mpos = markers[0] if markers else len(delivered) + 1
    log = obs['log']
    diverged = any(t == 99 for t, _ in log)
    # time stamps: index in the log of each thread's operations
    first_op = {}
    last_op = {}
    for i, (t, lbl) in enumerate(log):
        first_op.setdefault(t, i)
        last_op[t] = i
    for t in range(n_senders):
        prev = None
        for j in range(n_msgs):
            ident = mb.msg_ident(t, j)
            r = obs['results'][t][j]
            cnt = delivered.count(ident)
            pos = delivered.index(ident) if cnt else None
            nm = 't%d.m%d' % (t, j)
            if r == 0:
                if cnt != 1 or (n_drainers and n_stoppers == 0 and not (pos < mpos)):
                    bad.append(nm + '.ok_implies_enqueued_once_before_marker')
                if cnt == 1 and markers and pos > mpos:
                    bad.append(nm + '.ok_implies_enqueued_once_before_marker')
            else:
                if r != 1 or cnt != 0:
                    bad.append(nm + '.err_returns_own_message_unqueued')
            if prev is not None and prev[0] == 0 and r == 0 and prev[1] is not None and pos is not None and not prev[1] < pos:
                bad.append(nm + '.program_order')
            prev = (r, pos)
        # refused after a drain returned (only decidable for single-message senders from the log)
        if n_msgs == 1 and not diverged:
            for d in range(n_drainers):
                dt = n_senders + d
                if t in first_op and dt in last_op and first_op[t] > last_op[dt] and obs['results'][t][0] != 1:
                    bad.append('t%d.m0.refused_after_drain%d_returned' % (t, d))
    return sorted(set(bad)), diverged


def replay(prop, n_senders, n_msgs, n_drainers, n_stoppers, status0, sched, expected_bad, tries=40, serialized=()):
    seq = ['%d:%s' % (t, lbl) for (_, t, _, lbl, _) in sched if not lbl.endswith('try_recv')]
    attempts = []
    obs = run_native(n_senders, n_msgs, n_drainers, n_stoppers, status0, seq, serialized)
    bad, div = concrete_oracle(prop, n_senders, n_msgs, n_drainers, n_stoppers, obs)
    attempts.append({'schedule': seq, 'violated': bad, 'diverged': div})
    if not bad:
        # the turn-stile may diverge when the mutated tree has operations without hook labels: bounded randomised retries
        rnd = random.Random(1)
        T = n_senders + n_drainers + n_stoppers
        for k in range(tries):
            s2 = list(seq)
            # perturb: random interleaving preserving per-thread counts
            rnd.shuffle(s2)
            obs = run_native(n_senders, n_msgs, n_drainers, n_stoppers, status0, s2, serialized)
            bad, div = concrete_oracle(prop, n_senders, n_msgs, n_drainers, n_stoppers, obs)
            if bad:
                attempts.append({'schedule': s2, 'violated': bad, 'diverged': div})
                seq = s2
                break
    return {'replayed': bool(bad), 'detail': 'native run: violated %s (solver said %s); queue=%s flushed=%s results=%s status=%s' % (
        bad, expected_bad, obs['queue'], obs['flushed'], obs['results'], obs['status']),
        'replay': {'scenario': 'mailbox', 'prop': prop, 'senders': n_senders, 'msgs': n_msgs, 'drainers': n_drainers, 'stoppers': n_stoppers, 'status0': status0, 'serialized': list(serialized),
                   'schedule': seq, 'violated': bad, 'model_schedule': [(t, lbl) for (_, t, _, lbl, _) in sched]}}


def replay_from_json(d):
    rp = d['replay']
    obs = run_native(rp['senders'], rp['msgs'], rp['drainers'], rp['stoppers'], rp['status0'], rp['schedule'], rp.get('serialized', ()))
    bad, div = concrete_oracle(rp['prop'], rp['senders'], rp['msgs'], rp['drainers'], rp['stoppers'], obs)
    print('native run:', obs)
    print('violated:', bad)
    return 1 if bad else 0
