"""C05 - An exiting actor takes its whole subtree with it; links stay consistent.

Sequential slice: SupervisionTree::{link, unlink, take_children} and ActorCell::terminate executed from every consistent forest
over N real-shaped cells (concrete shape, symbolic statuses), real Mutex / HashMap / Vec semantics through contract models.
"""
import itertools
import os
import z3

import world
import models_std
from exec import State, Inconclusive, Unmodelled, Outcome
from values import *
from framework import mval

LINK = 'SupervisionTree::link'
UNLINK = 'SupervisionTree::unlink'
TAKE = 'SupervisionTree::take_children'
TERMINATE = 'ActorCell::terminate'
DRAINING, STOPPING = 4, 5


def descendants(sup, p):
    out = []
    frontier = [p]
    while frontier:
        x = frontier.pop()
        for j, s in enumerate(sup):
            if s == x and j not in out:
                out.append(j)
                frontier.append(j)
    return out


def shapes(n, tier):
    res = []
    for sup in world.forests(n):
        leafs = [i for i in range(n) if not any(s == i for s in sup)]
        subsets = [()]
        for k in range(1, len(leafs) + 1):
            subsets += list(itertools.combinations(leafs, k))
        if tier == 'quick':
            subsets = [s for s in subsets if len(s) <= 1]
        for closed in subsets:
            res.append((sup, closed))
    return res


def run_op(prog, n, sup, closed, op, a, b, remote=None):
    """returns (I, world, list of (outcome, expectations))"""
    I = world.new_interp(prog)
    st = State()
    w = world.World(prog, I, st, n, remote=remote)
    w.set_shape(sup, closed)
    pre = w.snapshot(st)
    body = prog.find_fn({'link': LINK, 'unlink': UNLINK, 'take': TAKE, 'terminate': TERMINATE}[op])
    if body is None:
        raise Inconclusive('function not found: ' + op)
    if op == 'link':
        c = st.alloc(w.cell(a))
        args = [Ref(c, ()), w.cell(b)]
    elif op == 'unlink':
        c = st.alloc(w.cell(a))
        s = st.alloc(w.cell(b))
        args = [Ref(c, ()), Ref(s, ())]
    else:
        c = st.alloc(w.cell(a))
        args = [Ref(c, ())]
    outs = I.run_body(st, body, args)
    return I, w, pre, outs, body


def expected_after_link(pre, n, c, s):
    ch = [list(x) if x is not None else None for x in pre['children']]
    sp = list(pre['supervisor'])
    old = sp[c]
    if old is not None and old != s and ch[old] is not None and c in ch[old]:
        ch[old].remove(c)
    if c not in ch[s]:
        ch[s] = sorted(ch[s] + [c])
    sp[c] = s
    return {'children': ch, 'supervisor': sp}


def check_shape(ctx, prog, n, sup, closed, hits, remote=None):
    tag0 = 'sup=%s closed=%s%s' % (''.join('-' if s is None else str(s) for s in sup), ''.join(map(str, closed)) or '-', ' remote=%s' % remote if remote else '')
    for op, pairs in (('link', [(a, b) for a in range(n) for b in range(n) if a != b]), ('unlink', [(a, b) for a in range(n) for b in range(n) if a != b]),
                      ('take', [(a, None) for a in range(n)]), ('terminate', [(a, None) for a in range(n)])):
        for (a, b) in pairs:
            I, w, pre, outs, body = run_op(prog, n, sup, closed, op, a, b, remote)
            ctx.absorb(I)
            ctx.paths += len(outs)
            tag = '%s %s(%s%s)' % (tag0, op, a, '' if b is None else ',%d' % b)
            s0 = [x.t for x in w.status0]
            for k, o in enumerate(outs):
                name = '%s.path%d' % (tag, k)
                rp = {'n': n, 'sup': sup, 'closed': list(closed), 'op': op, 'a': a, 'b': b, 'remote': {str(k_): v_ for k_, v_ in remote.items()} if remote else None}
                on_cex = (lambda m, rp=rp, w=w: cex_native(m, rp, w))
                if o.kind != 'ret':
                    ctx.prove(name + '.no_panic_no_deadlock', o.st.pc, z3.BoolVal(False), group='C05.%s.completes' % op, key='C05.%s.completes' % op, on_cex=on_cex)
                    continue
                okk, post = w.invariant(o.st)
                free = w.locks_free(o.st)
                claims = [('invariant_and_locks', z3.BoolVal(bool(okk and free)))]
                if op in ('link', 'unlink', 'take'):
                    # lock discipline: the tree fields, and the statuses a structural decision depends on, are only touched while the global tree lock is held
                    # (what makes check-and-insert atomic with respect to an exit's status write followed by its unlink, under every interleaving)
                    held, disciplined, n_acc = False, True, 0
                    for e in o.st.trace:
                        if e[0] != 'OP':
                            continue
                        if e[1].startswith('static:') and e[1].endswith('TREE_MUTATION_LOCK'):
                            held = e[2] == 'lock'
                        elif e[1].startswith(('status', 'children', 'supervisor')):
                            n_acc += 1
                            disciplined = disciplined and held
                    claims.append(('tree_lock_held_for_every_status_read_and_tree_access', z3.BoolVal(disciplined)))
                    hits['under_lock'] = hits.get('under_lock', 0) + int(n_acc > 0)
                if op == 'link':
                    refuse = z3.Or(z3.UGE(s0[a], DRAINING), z3.UGE(s0[b], DRAINING), z3.BoolVal(pre['children'][b] is None))
                    exp_ok = expected_after_link(pre, n, a, b) if pre['children'][b] is not None else None
                    ret = I.as_bool(o.val)
                    claims.append(('refused_iff_late_or_closed', ret == z3.Not(refuse)))
                    claims.append(('effect', z3.If(refuse, z3.BoolVal(post == pre), z3.BoolVal(exp_ok is not None and post == exp_ok))))
                    hits['link_relinks'] += int(exp_ok is not None and post == exp_ok and pre['supervisor'][a] not in (None, b))
                    hits['link_refused'] += int(post == pre)
                elif op == 'unlink':
                    if pre['supervisor'][a] == b:
                        exp = {'children': [list(x) if x is not None else None for x in pre['children']], 'supervisor': list(pre['supervisor'])}
                        if exp['children'][b] is not None and a in exp['children'][b]:
                            exp['children'][b].remove(a)
                        exp['supervisor'][a] = None
                        hits['unlink_effective'] += 1
                    else:
                        exp = pre
                    claims.append(('effect', z3.BoolVal(post == exp)))
                elif op == 'take':
                    kids = pre['children'][a] or []
                    exp = {'children': [list(x) if x is not None else None for x in pre['children']], 'supervisor': list(pre['supervisor'])}
                    exp['children'][a] = None
                    for c in kids:
                        exp['supervisor'][c] = None
                    got = sorted(w.pid_of(o.st, x) for x in o.val.fields) if isinstance(o.val, Agg) else None
                    claims.append(('effect', z3.BoolVal(post == exp and got == sorted(kids))))
                    hits['take_nonempty'] += int(bool(kids))
                else:
                    desc = descendants(sup, a)
                    exp_children_closed = all(post['children'][d] is None for d in desc + [a])
                    exp_detached = all(post['supervisor'][d] is None for d in desc)
                    claims.append(('subtree_closed_and_detached', z3.BoolVal(exp_children_closed and exp_detached)))
                    for d in desc:
                        claims.append(('descendant%d_killed_unless_already_stopping' % d, z3.Implies(z3.ULT(s0[d], STOPPING), w.killed(o.st, d))))
                        claims.append(('descendant%d_not_signalled_twice_or_when_stopping' % d, z3.Implies(z3.UGE(s0[d], STOPPING), z3.Not(w.killed(o.st, d)))))
                    hits['terminate_depth2'] += int(any(sup[d] != a for d in desc))
                    others = [x for x in range(n) if x not in desc and x != a]
                    claims.append(('outsiders_untouched', z3.And([z3.Not(w.killed(o.st, x)) for x in others] + [z3.BoolVal(post['children'][x] == pre['children'][x]) for x in others])))
                for cname, claim in claims:
                    ctx.prove('%s.%s' % (name, cname), o.st.pc, claim, group='C05.%s.%s' % (op, cname.split('_')[0] if op != 'terminate' else cname.rstrip('0123456789')),
                              key='C05.%s.%s' % (op, ''.join(ch for ch in cname if not ch.isdigit())),
                              sample={'shape': tag0, 'operation': '%s(%s%s)' % (op, a, '' if b is None else ',%d' % b), 'claim': cname, 'function': body.name}, on_cex=on_cex)


def cex_native(model, rp, w):
    import C05_replay
    statuses = [mval(model, s.t) for s in w.status0]
    return C05_replay.replay(rp, statuses)


def job(sub, n, chunk, tier):
    prog, info = world.load()
    hits = {'link_relinks': 0, 'link_refused': 0, 'unlink_effective': 0, 'take_nonempty': 0, 'terminate_depth2': 0, 'under_lock': 0}
    for (sup, closed) in chunk:
        check_shape(sub, prog, n, sup, closed, hits)
        # the same forest with cell 2 carrying a remote id whose pid equals cell 1's (a supervisor holding a local child next to the proxy of a remote actor)
        if world.remote_ids_available(prog):
            check_shape(sub, prog, n, sup, closed, hits, remote={2: 1})
    sub.extra['hits'] = hits


def run(ctx):
    prog, info = world.load()
    for fn in (LINK, UNLINK, TAKE, TERMINATE, 'ActorCell::kill', 'ActorProperties::send_signal'):
        b = prog.find_fn(fn)
        if b is None:
            raise Inconclusive('function not found in dump: ' + fn)
        ctx.encoded(prog, b)
    n = 3
    sh = shapes(n, ctx.tier)
    if ctx.tier != 'quick' and os.environ.get('VERIF_C05_N4', '1') == '1':
        pass
    ctx.bounds.update({'cells': n, 'shapes': len(sh), 'statuses': 'symbolic per cell (0..6)', 'depth': 'up to %d' % (n - 1),
                       'outside': 'forests over more than %d cells; concurrent interleavings of link/unlink/exit (concurrent slice, see level_note); the relink transient visible to '
                                  'lock-free readers while TREE_MUTATION_LOCK is held (interpretation note in DESIGN.md)' % n})
    ctx.assumptions += ['std Mutex: lock blocks while held, guard drop releases; poisoning not modelled',
                        'HashMap / Vec: contract models with concrete shape (insertion order stands for the unspecified iteration order)',
                        'tokio oneshot: send succeeds unless the receiver was closed; kill() = Signal::Kill placed in the signal oneshot',
                        'invariant evaluated when no structural operation is in flight (all mutexes released)']
    procs = 12
    chunks = [sh[i::procs] for i in range(procs)]
    ctx.parallel(job, [(n, ch, ctx.tier) for ch in chunks if ch])
    hits = ctx.extra.get('hits', {})
    for k in ('link_relinks', 'link_refused', 'unlink_effective', 'take_nonempty', 'terminate_depth2', 'under_lock'):
        ctx.note_witness('C05.' + k, hits.get(k, 0) > 0)


def replay_file(path):
    import json
    import C05_replay
    d = json.load(open(path))
    rp = d['replay']
    if rp.get('scenario') == 'link_race':
        bad, out = C05_replay.link_race()
        print('native link_race:', out, bad)
        return 1 if bad else 0
    res = C05_replay.replay(rp['rp'], rp['statuses'])
    print(res['detail'])
    return 1 if res['replayed'] else 0
