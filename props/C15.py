"""C15 - Factory capacity controls (leaky bucket limiter slice; discard limits in C15_limits part below).

Engine M, sequential mode, integers as mathematical Int with the machine ranges as constraints ("int mode"): the
u128 `/` and `%` by a symbolic divisor in `LeakyBucketRateLimiter::refresh` are out of reach of bit-blasting.
"""
import os
import z3

import mirdump
import models_std
import native
from exec import Interp, State, Unmodelled, Inconclusive
from values import *
from framework import mval

U64 = (1 << 64) - 1
MAX_LB = (1 << 63) - 1
INST_MAX = models_std.INSTANT_MAX_NANOS
DUR_MAX = models_std.DUR_MAX_NANOS
# native replay can only place instants near the real monotonic clock: offsets are kept below this bound when a
# counterexample is concretised (the solver is asked for a model inside the replayable window first)
REPLAY_WINDOW = 10 ** 17


def limiter_fields(prog):
    sd = prog.crate.struct('LeakyBucketRateLimiter')
    if not sd or sorted(sd['fields']) != sorted(['refill', 'interval', 'max', 'balance', 'deadline']):
        raise Inconclusive('LeakyBucketRateLimiter fields changed: %s' % (sd and sd['fields']))
    return {n: i for i, n in enumerate(sd['fields'])}


def mk_limiter(I, st, F, deadline_kind):
    v = {}
    v['refill'] = I.fresh_int('refill', 'usize', st)
    v['max'] = I.fresh_int('max', 'usize', st)
    v['balance'] = I.fresh_int('balance', 'usize', st)
    v['interval'] = I.fresh_int('interval', 'u128', st)
    st.assume(v['interval'].t <= DUR_MAX)
    st.assume(v['balance'].t <= v['max'].t)          # representation invariant (established by `new`)
    fields = [None] * 5
    fields[F['refill']] = v['refill']
    fields[F['max']] = v['max']
    fields[F['balance']] = v['balance']
    fields[F['interval']] = I.mk_duration(v['interval'])
    if deadline_kind == 'some':
        v['deadline'] = I.fresh_int('deadline', 'u128', st)
        st.assume(v['deadline'].t <= INST_MAX)
        fields[F['deadline']] = models_std.some(I.mk_instant(v['deadline']))
    else:
        v['deadline'] = None
        fields[F['deadline']] = models_std.NONE
    return Agg('LeakyBucketRateLimiter', fields), v


def read_post(I, st, cell, F):
    lim = I.read(st, cell, ())
    post = {k: lim.fields[F[k]] for k in ('refill', 'max', 'balance')}
    post['interval'] = lim.fields[F['interval']].fields[0]
    dl = lim.fields[F['deadline']]
    post['deadline'] = dl.fields[0].fields[0] if dl.variant == 'Some' else None
    return post


def refresh_claims(v, now, post):
    """list of (name, claim) for one `refresh(now)` step; all z3 Int terms"""
    refill, mx, bal, iv, d = v['refill'].t, v['max'].t, v['balance'].t, v['interval'].t, (v['deadline'].t if v['deadline'] is not None else None)
    b2 = post['balance'].t
    d2 = post['deadline'].t if post['deadline'] is not None else None
    claims = []
    claims.append(('balance_le_max', b2 <= mx))
    claims.append(('balance_monotone', b2 >= bal))
    claims.append(('config_untouched', z3.And(post['refill'].t == refill, post['max'].t == mx, post['interval'].t == iv)))
    if d is None:
        claims.append(('no_deadline_is_inert', z3.And(b2 == bal, d2 is None if isinstance(d2, type(None)) else False) if d2 is None else z3.BoolVal(False)))
        return claims
    unchanged = z3.And(b2 == bal, (d2 == d) if d2 is not None else False)
    claims.append(('early_call_changes_nothing', z3.Implies(now.t < d, unchanged)))
    q = (now.t - d) / iv            # integer division, only meaningful when iv > 0 and now >= d
    periods = q + 1
    due = z3.And(now.t >= d, iv > 0)
    claims.append(('tokens_le_periods_times_refill', z3.Implies(due, b2 - bal <= periods * refill)))
    if d2 is not None:
        claims.append(('deadline_on_grid', z3.Implies(due, d2 == d + periods * iv)))
        claims.append(('deadline_after_now', z3.Implies(due, z3.And(d2 > now.t, d2 <= now.t + iv))))
        claims.append(('zero_interval', z3.Implies(z3.And(now.t >= d, iv == 0), z3.And(d2 == now.t, b2 == z3.If(bal + refill > mx, mx, bal + refill)))))
    else:
        claims.append(('deadline_dropped_only_if_unrepresentable', z3.Implies(due, d + periods * iv > INST_MAX)))
        claims.append(('zero_interval', z3.Implies(z3.And(now.t >= d, iv == 0), False)))
    return claims


def concrete_refresh_oracle(pre, now, post):
    """the same facts on concrete python ints (used on native replay output); returns names of violated facts"""
    bad = []
    refill, mx, bal, iv, d = pre['refill'], pre['max'], pre['balance'], pre['interval'], pre['deadline']
    b2, d2 = post['balance'], post['deadline']
    if b2 > mx:
        bad.append('balance_le_max')
    if b2 < bal:
        bad.append('balance_monotone')
    if d is None:
        if b2 != bal or d2 is not None:
            bad.append('no_deadline_is_inert')
        return bad
    if now < d:
        if b2 != bal or d2 != d:
            bad.append('early_call_changes_nothing')
        return bad
    if iv > 0:
        periods = (now - d) // iv + 1
        if b2 - bal > periods * refill:
            bad.append('tokens_le_periods_times_refill')
        if d2 is not None:
            if d2 != d + periods * iv:
                bad.append('deadline_on_grid')
            if not (now < d2 <= now + iv):
                bad.append('deadline_after_now')
    else:
        if d2 != now or b2 != min(bal + refill, mx):
            bad.append('zero_interval')
    return bad


def native_refresh(pre, now):
    out, _, rc, err = native.run('ratelim_refresh', refill=pre['refill'], interval=pre['interval'], max=pre['max'], balance=pre['balance'],
                                 deadline=pre['deadline'], now=now)
    if rc != 0:
        raise RuntimeError('native replay failed: ' + err[-500:])
    return {'balance': int(out['balance']), 'deadline': None if out['deadline'] == 'none' else int(out['deadline']), 'panicked': out['panicked'] == 'true'}


def run(ctx):
    prog, info = mirdump.load('ractor')
    F = limiter_fields(prog)
    ctx.bounds.update({'integers': 'mathematical Int with machine ranges as constraints (u128 / % by a symbolic divisor)',
                       'window_calls_k': 2 if ctx.tier == 'quick' else 3,
                       'outside': 'unbounded call sequences are covered only through the inductive single-step facts (deadline stays on the grid d0 + j*interval; '
                                  'tokens per step <= boundaries crossed * refill); k-call windows beyond k; floating time sources; user code that writes the pub fields '
                                  'directly and breaks balance <= max'})
    ctx.assumptions += [
        'virtual clock: Instant = total nanoseconds in [0, (2^63-1)*1e9+999999999], Instant::now() non-decreasing; Duration = total nanoseconds <= u64::MAX s + 999999999 ns',
        'Instant::checked_add returns None iff the sum exceeds the representable range (std Timespec contract)',
        'representation invariant assumed on entry: balance <= max (established by LeakyBucketRateLimiter::new, preserved by refresh/bump - proved here)',
    ]
    body = prog.find_fn('LeakyBucketRateLimiter::refresh')
    if body is None:
        raise Inconclusive('refresh not found in the dump')
    ctx.encoded(prog, body)

    # ------------------------------------------------------------------ single step of refresh, both deadline shapes
    for dk in ('some', 'none'):
        I = Interp(prog, mode='int')
        models_std.install(I)
        st = State()
        lim, v = mk_limiter(I, st, F, dk)
        now = I.fresh_int('now', 'u128', st)
        st.assume(now.t <= INST_MAX)
        cell = st.alloc(lim)
        outs = I.run_body(st, body, [Ref(cell, (), True), I.mk_instant(now)])
        ctx.absorb(I)
        ctx.paths += len(outs)
        for n, o in enumerate(outs):
            tag = 'refresh[%s].path%d' % (dk, n)
            if o.kind in ('unwind', 'abort'):
                ctx.prove(tag + '.no_panic', o.st.pc, z3.BoolVal(False), group='refresh.no_panic', key='refresh.no_panic',
                          sample={'function': body.name, 'claim': 'panic edge unreachable', 'trace': [str(e) for e in o.st.trace[-2:]]},
                          on_cex=lambda m, v=v, now=now: cex_refresh(m, v, now, 'no_panic'))
                continue
            if o.kind != 'ret':
                raise Inconclusive('refresh outcome %s: %s' % (o.kind, o.val))
            post = read_post(I, o.st, cell, F)
            for cname, claim in refresh_claims(v, now, post):
                ctx.prove('%s.%s' % (tag, cname), o.st.pc, claim, group='refresh.' + cname, key='refresh.' + cname,
                          sample={'function': body.name, 'path_constraints': len(o.st.pc), 'claim': cname},
                          on_cex=lambda m, v=v, now=now, cname=cname: cex_refresh(m, v, now, cname))
            # vacuity witnesses: interesting regions reachable on this path?
            if dk == 'some':
                for wname, cond in (('refill_several_periods', z3.And(now.t >= v['deadline'].t + 3 * v['interval'].t, v['interval'].t > 0, post['balance'].t > v['balance'].t)),
                                    ('early_call', now.t < v['deadline'].t),
                                    ('zero_interval', z3.And(v['interval'].t == 0, now.t >= v['deadline'].t)),
                                    ('cap_hit', z3.And(post['balance'].t == v['max'].t, v['balance'].t < v['max'].t)),
                                    ('periods_saturate', z3.And(v['interval'].t > 0, (now.t - v['deadline'].t) / v['interval'].t > U64))):
                    r, m = ctx.solve(list(o.st.pc) + [cond], timeout_ms=20000)
                    if r == 'sat':
                        ctx.extra.setdefault('witness_hits', {}).setdefault(wname, 0)
                        ctx.extra['witness_hits'][wname] += 1
    for wname in ('refill_several_periods', 'early_call', 'zero_interval', 'cap_hit', 'periods_saturate'):
        ctx.note_witness('refresh.' + wname, ctx.extra.get('witness_hits', {}).get(wname, 0) > 0)

    # ------------------------------------------------------------------ check()/bump(): bump only decrements, check = refresh + balance > 0
    run_check_bump(ctx, prog, F)

    # ------------------------------------------------------------------ k-call window claim
    run_window(ctx, prog, F, ctx.bounds['window_calls_k'])

    # ------------------------------------------------------------------ translator validation: concrete inputs through model and real code
    validate_translation(ctx, prog, F, body)

    # discard limits of worker queues (real enqueue_job / dispatch_job / get_next_non_expired_job)
    import C15_limits
    import world
    prog2, info2 = world.load()
    C15_limits.check(ctx, prog2)
    import C15_pool
    C15_pool.check(ctx, prog2)
    import C15_drain
    import C15_drain_replay
    C15_drain.check(ctx, prog2)
    try:
        bad, n = C15_drain_replay.battery()
        ctx.translator_validated += n
        if bad:
            rec = {'name': 'drain.native_battery', 'group': 'C15.drain', 'solver_s': 0.0, 'status': 'cex'}
            ctx.obligations.append(rec)
            ctx.handle_cex(rec['name'], 'C15.drain.native', None, lambda _m: {'replayed': True, 'detail': 'real Factory::handle around draining: %s' % bad[:3], 'replay': {'which': 'drain_battery'}}, rec)
    except RuntimeError as e:
        ctx.inconclusive.append('drain native battery unavailable: %s' % str(e)[-300:])


def concretise(m, v, now):
    pre = {k: (mval(m, v[k].t) if v[k] is not None else None) for k in ('refill', 'max', 'balance', 'interval', 'deadline')}
    return pre, mval(m, now.t)


def cex_refresh(m, v, now, cname):
    pre, n = concretise(m, v, now)
    if max(x for x in (pre['deadline'] or 0, n, pre['interval']) if x is not None) > REPLAY_WINDOW:
        return {'replayed': False, 'detail': 'counterexample outside the natively replayable time window: %r now=%d' % (pre, n)}
    post = native_refresh(pre, n)
    if cname == 'no_panic':
        rep = post['panicked']
        bad = ['no_panic'] if rep else []
    else:
        bad = concrete_refresh_oracle(pre, n, post) if not post['panicked'] else ['panicked']
    return {'replayed': bool(bad), 'detail': 'native refresh(%r, now=%d) -> %r violates %s' % (pre, n, post, bad),
            'replay': {'scenario': 'ratelim_refresh', 'pre': pre, 'now': n, 'violated': bad}}


def run_check_bump(ctx, prog, F):
    chk = prog.find_fn('<LeakyBucketRateLimiter as RateLimiter>::check')
    bump = prog.find_fn('<LeakyBucketRateLimiter as RateLimiter>::bump')
    if chk is None or bump is None:
        raise Inconclusive('check/bump not found')
    ctx.encoded(prog, chk)
    ctx.encoded(prog, bump)
    I = Interp(prog, mode='int')
    models_std.install(I)
    st = State()
    lim, v = mk_limiter(I, st, F, 'some')
    cell = st.alloc(lim)
    outs = I.run_body(st, bump, [Ref(cell, (), True)])
    for n, o in enumerate(outs):
        if o.kind != 'ret':
            ctx.prove('bump.path%d.no_panic' % n, o.st.pc, z3.BoolVal(False), group='bump.no_panic')
            continue
        post = read_post(I, o.st, cell, F)
        ctx.prove('bump.path%d.decrement' % n, o.st.pc,
                  z3.And(post['balance'].t == z3.If(v['balance'].t > 0, v['balance'].t - 1, 0), post['deadline'].t == v['deadline'].t), group='bump.decrement',
                  sample={'function': bump.name, 'claim': "balance' = balance - 1 (or 0), nothing else changes"})
    ctx.absorb(I)
    # check(): returns true iff post-refresh balance > 0
    I = Interp(prog, mode='int')
    models_std.install(I)
    st = State()
    lim, v = mk_limiter(I, st, F, 'some')
    cell = st.alloc(lim)
    outs = I.run_body(st, chk, [Ref(cell, (), True)])
    n_true = n_false = 0
    for n, o in enumerate(outs):
        if o.kind != 'ret':
            ctx.prove('check.path%d.no_panic' % n, o.st.pc, z3.BoolVal(False), group='check.no_panic')
            continue
        post = read_post(I, o.st, cell, F)
        ctx.prove('check.path%d.result' % n, o.st.pc, o.val == (post['balance'].t > 0), group='check.result',
                  sample={'function': chk.name, 'claim': 'check() == (balance after refresh > 0)'})
        nows = [e for e in o.st.trace if e[0] == 'NOW']
        ctx.prove('check.path%d.reads_clock_once' % n, o.st.pc, z3.BoolVal(len(nows) == 1), group='check.clock')
    ctx.absorb(I)


def run_window(ctx, prog, F, k):
    """window claim by induction over check()+bump() rounds, decided on the real code's paths:
    ghost state (d0, bal0, j, A, last): deadline = d0 + j*interval, A + balance <= bal0 + refill*j, j>=1 => deadline - interval <= last.
    One round from an arbitrary state satisfying the invariant re-establishes it (with j' = j + boundaries crossed), and the invariant
    implies  A <= bal0 + refill * #(grid boundaries <= last clock reading)."""
    chk = prog.find_fn('<LeakyBucketRateLimiter as RateLimiter>::check')
    bump = prog.find_fn('<LeakyBucketRateLimiter as RateLimiter>::bump')
    I = Interp(prog, mode='int', max_paths=50000)
    models_std.install(I)
    st = State()
    lim, v = mk_limiter(I, st, F, 'some')
    iv, refill, bal, d, mx = v['interval'].t, v['refill'].t, v['balance'].t, v['deadline'].t, v['max'].t
    st.assume(iv > 0)
    d0, bal0, j, A, last = z3.Int('g_d0'), z3.Int('g_bal0'), z3.Int('g_j'), z3.Int('g_A'), z3.Int('g_last')
    inv = z3.And(d0 >= 0, bal0 >= 0, j >= 0, A >= 0, last >= 0, d == d0 + j * iv, A + bal <= bal0 + refill * j,
                 z3.Implies(j >= 1, d - iv <= last))
    st.assume(inv)
    st.ghost['clock_last'] = Sc(last, 'u128')
    cell = st.alloc(lim)
    rounds = []
    for o in I.run_body(st, chk, [Ref(cell, (), True)]):
        if o.kind != 'ret':
            ctx.prove('window.round.no_panic', o.st.pc, z3.BoolVal(False), group='window.no_panic')
            continue
        now = [e for e in o.st.trace if e[0] == 'NOW'][-1][1]
        for s2, yes in models_std.branch(I, o.st, o.val):
            if yes:
                for o2 in I.run_body(s2, bump, [Ref(cell, (), True)]):
                    if o2.kind == 'ret':
                        rounds.append((o2.st, 1, now))
            else:
                rounds.append((s2, 0, now))
    ctx.absorb(I)
    ctx.extra['window_round_paths'] = len(rounds)
    for n, (s, adm, now) in enumerate(rounds):
        post = read_post(I, s, cell, F)
        if post['deadline'] is None:
            # limiter became inert (deadline unrepresentable): no further refill ever; admitted + balance does not grow
            claim = A + adm + post['balance'].t <= bal0 + refill * (j + z3.If(now.t < d, 0, (now.t - d) / iv + 1))
            ctx.prove('window.round.path%d.inert_budget' % n, s.pc, claim, group='window.inductive_step', key='window.admitted')
            continue
        P = z3.If(now.t < d, 0, (now.t - d) / iv + 1)
        j2 = j + P
        d2, b2 = post['deadline'].t, post['balance'].t
        inv2 = z3.And(d2 == d0 + j2 * iv, (A + adm) + b2 <= bal0 + refill * j2, z3.Implies(j2 >= 1, d2 - iv <= now.t), b2 <= mx)
        ctx.prove('window.round.path%d.invariant_preserved' % n, s.pc, inv2, group='window.inductive_step', key='window.admitted',
                  sample={'round': 'check()+bump()', 'admitted_this_round': adm, 'claim': 'ghost invariant re-established with j\' = j + boundaries crossed'},
                  on_cex=lambda m, v=v, now=now: cex_round(m, v, now))
    ctx.note_witness('window.round_admits', any(a == 1 for _, a, _ in rounds))
    ctx.note_witness('window.round_rejects', any(a == 0 for _, a, _ in rounds))
    # the invariant implies the user-facing bound (pure arithmetic, no code): A <= bal0 + refill * crossed(last)
    crossed = z3.If(last < d0, 0, (last - d0) / iv + 1)
    # two lemmas whose composition is the bound (one nonlinear step each keeps the solver fast):
    ctx.prove('window.invariant_implies_j_le_crossed', [iv > 0, refill >= 0, bal >= 0, inv], j <= crossed, group='window.bound',
              sample={'claim': 'ghost boundary counter j <= #(boundaries d0 + i*interval <= last reading)'})
    c = z3.Int('g_c')
    ctx.prove('window.budget_monotone_in_boundaries', [iv > 0, refill >= 0, bal >= 0, inv, j <= c], A <= bal0 + refill * c, group='window.bound',
              sample={'claim': 'A <= bal0 + refill * c for every c >= j; with c = crossed(last): A <= bal0 + refill * boundaries crossed'})
    # base case: right after construction (j = 0, A = 0, bal0 = balance, d0 = deadline) the invariant holds trivially
    ctx.prove('window.base_case', [iv > 0, j == 0, A == 0, bal0 == bal, d0 == d, d >= 0, bal >= 0, last >= 0], inv, group='window.base')
    if k >= 2 and os.environ.get('VERIF_C15_BMC', '1') == '1':
        run_window_bmc(ctx, prog, F, k)


def cex_round(m, v, now):
    """a counterexample to induction is only reportable if the pre-state is reachable; replay the single step natively and
    evaluate the single-step oracle (which the invariant preservation follows from)"""
    return cex_refresh(m, v, now, 'inductive_step')


def run_window_bmc(ctx, prog, F, k):
    """bounded cross-check of the induction: k concrete-shape rounds from the constructor's post-state, concrete small interval
    so that the arithmetic stays linear (interval in {1, 3, 1000} ns), everything else symbolic"""
    chk = prog.find_fn('<LeakyBucketRateLimiter as RateLimiter>::check')
    bump = prog.find_fn('<LeakyBucketRateLimiter as RateLimiter>::bump')
    total = 0
    for ivc in ((3,) if ctx.tier == 'quick' else (1, 3, 1000)):
        I = Interp(prog, mode='int', max_paths=50000)
        models_std.install(I)
        st = State()
        lim, v = mk_limiter(I, st, F, 'some')
        st.assume(v['interval'].t == ivc)
        st.assume(v['deadline'].t <= 10 ** 12)
        cell = st.alloc(lim)
        frontier = [(st, 0, [])]
        for step in range(k):
            nxt = []
            for s, adm, clocks in frontier:
                for o in I.run_body(s, chk, [Ref(cell, (), True)]):
                    if o.kind != 'ret':
                        continue
                    now = [e for e in o.st.trace if e[0] == 'NOW'][-1][1]
                    o.st.assume(now.t <= 10 ** 12)
                    for s2, yes in models_std.branch(I, o.st, o.val):
                        if yes:
                            for o2 in I.run_body(s2, bump, [Ref(cell, (), True)]):
                                if o2.kind == 'ret':
                                    nxt.append((o2.st, adm + 1, clocks + [now]))
                        else:
                            nxt.append((s2, adm, clocks + [now]))
            frontier = nxt
        ctx.absorb(I)
        d0, iv, refill, bal0, mx = v['deadline'].t, v['interval'].t, v['refill'].t, v['balance'].t, v['max'].t
        for n, (s, adm, clocks) in enumerate(frontier):
            lastc = clocks[-1].t
            crossed = z3.If(lastc < d0, 0, (lastc - d0) / ivc + 1)
            post = read_post(I, s, cell, F)
            claim = z3.And(adm <= bal0 + refill * crossed, post['balance'].t <= mx)
            ctx.prove('window.bmc.iv%d.k%d.path%d' % (ivc, k, n), s.pc, claim, group='window.bmc', key='window.admitted',
                      sample={'calls': k, 'interval_ns': ivc, 'admitted_on_path': adm},
                      on_cex=lambda m, v=v, clocks=clocks, adm=adm: cex_window(m, v, clocks, adm))
        total += len(frontier)
        ctx.note_witness('window.bmc.iv%d.all_admitted' % ivc, any(a == k for _, a, _ in frontier))
    ctx.extra['window_bmc_paths'] = total


def cex_window(m, v, clocks, adm):
    pre = {kk: mval(m, v[kk].t) for kk in ('refill', 'max', 'balance', 'interval', 'deadline')}
    times = [mval(m, c.t) for c in clocks]
    if max(times + [pre['deadline'], pre['interval']]) > REPLAY_WINDOW:
        return {'replayed': False, 'detail': 'counterexample outside the natively replayable time window'}
    out, lines, rc, err = native.run('ratelim_window', refill=pre['refill'], interval=pre['interval'], max=pre['max'], balance=pre['balance'],
                                     deadline=pre['deadline'], times=times)
    if rc != 0:
        return {'replayed': False, 'detail': 'native run failed ' + err[-300:]}
    admitted = int(out['admitted'])
    last = times[-1]
    crossed = 0 if last < pre['deadline'] else (last - pre['deadline']) // pre['interval'] + 1
    bad = admitted > pre['balance'] + pre['refill'] * crossed
    return {'replayed': bad, 'detail': 'native: admitted=%d > balance0 %d + refill %d * boundaries %d (times %s, pre %r)' % (admitted, pre['balance'], pre['refill'], crossed, times, pre),
            'replay': {'scenario': 'ratelim_window', 'pre': pre, 'times': times}}


def validate_translation(ctx, prog, F, body):
    """push concrete vectors (the repo's own unit-test shapes plus corner values) through the interpreter and the real code"""
    import random
    rnd = random.Random(ctx.seed)
    vectors = [
        dict(refill=1, interval=10_000_000, max=10, balance=10, deadline=10_000_000, now=0),
        dict(refill=1, interval=10_000_000, max=10, balance=0, deadline=10_000_000, now=10_000_000),
        dict(refill=3, interval=1000, max=10, balance=2, deadline=500, now=2600),
        dict(refill=5, interval=0, max=7, balance=1, deadline=5, now=9),
        dict(refill=U64, interval=1, max=MAX_LB, balance=0, deadline=0, now=10 ** 12),
        dict(refill=2, interval=500, max=U64, balance=U64 - 1, deadline=100, now=100),
        dict(refill=1, interval=999_999_999, max=5, balance=0, deadline=1, now=10 ** 10 + 7),
    ]
    for _ in range(6):
        iv = rnd.choice([1, 7, 1000, 10 ** 9, 10 ** 9 + 1])
        vectors.append(dict(refill=rnd.randrange(0, 50), interval=iv, max=rnd.randrange(0, 100), balance=0, deadline=rnd.randrange(0, 10 ** 6), now=rnd.randrange(0, 10 ** 11)))
    n_ok = 0
    for vec in vectors:
        vec['balance'] = min(vec['balance'], vec['max'])
        I = Interp(prog, mode='int')
        models_std.install(I)
        st = State()
        fields = [None] * 5
        fields[F['refill']] = I.mk_int(vec['refill'], 'usize')
        fields[F['max']] = I.mk_int(vec['max'], 'usize')
        fields[F['balance']] = I.mk_int(vec['balance'], 'usize')
        fields[F['interval']] = I.mk_duration(I.mk_int(vec['interval'], 'u128'))
        fields[F['deadline']] = models_std.some(I.mk_instant(I.mk_int(vec['deadline'], 'u128')))
        cell = st.alloc(Agg('LeakyBucketRateLimiter', fields))
        outs = [o for o in I.run_body(st, body, [Ref(cell, (), True), I.mk_instant(I.mk_int(vec['now'], 'u128'))])]
        if len(outs) != 1 or outs[0].kind != 'ret':
            raise Inconclusive('translator validation: concrete run forked: %r' % (outs,))
        post = read_post(I, outs[0].st, cell, F)
        mb = z3.simplify(post['balance'].t).as_long()
        md = z3.simplify(post['deadline'].t).as_long() if post['deadline'] is not None else None
        nat = native_refresh(vec, vec['now'])
        if nat['panicked'] or nat['balance'] != mb or nat['deadline'] != md:
            raise Inconclusive('translator validation mismatch on %r: model (%s,%s) native %r' % (vec, mb, md, nat))
        n_ok += 1
    ctx.translator_validated += n_ok
    ctx.extra['translator_validation'] = '%d concrete refresh vectors agree between the MIR interpreter and the native build' % n_ok


def replay_file(path):
    import json
    d = json.load(open(path))
    rp = d.get('replay') or {}
    if rp.get('scenario') == 'ratelim_refresh':
        post = native_refresh(rp['pre'], rp['now'])
        bad = ['panicked'] if post['panicked'] else concrete_refresh_oracle(rp['pre'], rp['now'], post)
        print('native refresh ->', post, 'violated:', bad)
        return 1 if bad else 0
    if rp.get('scenario') == 'ratelim_window':
        pre, times = rp['pre'], rp['times']
        out, lines, rc, err = native.run('ratelim_window', refill=pre['refill'], interval=pre['interval'], max=pre['max'], balance=pre['balance'], deadline=pre['deadline'], times=times)
        print('\n'.join(lines), out)
        last = times[-1]
        crossed = 0 if last < pre['deadline'] else (last - pre['deadline']) // pre['interval'] + 1
        return 1 if int(out['admitted']) > pre['balance'] + pre['refill'] * crossed else 0
    if rp.get('scenario') == 'worker_enqueue':
        import C15_limits_replay
        obs = C15_limits_replay.run_native(rp['rp']['mode'], rp['limit'], rp['rp']['qlen'], rp['rp']['busy'], rp['dead'])
        bad = C15_limits_replay.violations(rp['rp']['mode'], rp['limit'], rp['rp']['qlen'], rp['rp']['busy'], obs)
        print('native:', obs, 'violated:', bad)
        return 1 if bad else 0
    if rp.get('which') == 'pool':
        import C15_pool_replay
        r = C15_pool_replay.replay(rp['rp'])
        print(r['detail'])
        return 1 if r['replayed'] else 0
    if rp.get('which') in ('drain', 'drain_battery', 'drain_sites'):
        import C15_drain_replay
        bad, _n = C15_drain_replay.battery()
        if rp.get('which') == 'drain':
            bad += C15_drain_replay.evaluate(rp['rp'])[0]
        print('native Factory::handle around draining:', bad)
        return 1 if bad else 0
    print('unknown replay scenario')
    return 2
