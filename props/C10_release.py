"""C10 (release slice) - the exit sequence gives the name (and, in cluster builds, the pid) back exactly once, when the actor begins to stop.

The concurrent slice of C10 races `ActorCell::set_status(Stopping / Stopped)` of the holder against spawns and lookups and shows that the removal the exiter
performs hits only its own entry - *because it happens before a successor can have taken the name*. That argument needs the exit sequence to contain no second,
later removal by name (which would be a stale unregister: it removes whoever holds the name by then). This slice runs the whole real exit path - start, task,
processing loop, lifecycle guard incl. task cancellation - for a named actor (layered lifecycle exploration shared with C01 / C04, registry calls recorded as
effects) and counts the releases:

  * every lifecycle that ends (exit of any cause, failed start, cancelled task) performs exactly one release of the name and one of the pid;
  * nothing is released while the actor is still running."""
import z3

import lifecycle as lc
import lifeprops as lp
import lifetrace as lt
from values import *


def job(sub, runtime, budget):
    prog, info = lc.load()
    I1, a1, pm = lt.explore_process_message(prog, runtime, budget, loop_status=(2, 4))
    sub.absorb(I1)
    S = lt.classes_of(pm)
    I, a, res = lt.explore_lifecycle(prog, S, runtime, budget, True, cancel_points=True, kill_reason=lt.kill_reason_of(pm), name='the-name')
    sub.absorb(I)
    sub.paths += len(pm) + len(res)
    tag = 'release.%s.p%d' % (runtime, budget)
    seen = set()
    for k, r in enumerate(res):
        tr = r['state'].trace
        names = [e for e in tr if e[0] == 'FX' and e[1] == 'unregister_name']
        pids = [e for e in tr if e[0] == 'FX' and e[1] == 'unregister_pid']
        ended = r['kind'] in ('ready', 'cancelled', 'unwind', 'abort') and (any(e[0] == 'TASKEND' for e in tr) or any(e[0] == 'START_ERR' for e in tr) or r['kind'] == 'cancelled')
        stopped = z3.is_true(z3.simplify(a.status(r['state']) == 6))
        claims = {'the_name_is_never_released_twice': len(names) <= 1, 'the_pid_is_never_released_twice': len(pids) <= 1}
        if stopped:
            claims['an_actor_that_stopped_released_its_name_exactly_once'] = len(names) == 1
            seen.add('stopped')
        if not names:
            seen.add('still_registered')
        lp.record(sub, '%s.path%d' % (tag, k), r['state'], claims, 'C10.release', sample={'phase': r['phase'], 'kind': r['kind'], 'releases': len(names)} if k < 3 else None, on_cex=lambda m: replay())
    sub.note_witness('C10.%s.stopped_path_exists' % tag, 'stopped' in seen)
    sub.extra.setdefault('release', []).append({'runtime': runtime, 'poll_budget': budget, 'lifecycle_paths': len(res)})


def instances(tier):
    if tier == 'quick':
        return [('ActorRuntime', 1)]
    return [('ActorRuntime', 1), ('ThreadLocalActorRuntime', 1)]


def replay():
    import C10_release_replay
    return C10_release_replay.replay()
