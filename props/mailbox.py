"""Shared set-up for the concurrent mailbox checks (C02, C07): a detached `ActorProperties` whose shared fields are
modelled objects, thread programs for senders / drainers / stoppers and helpers to read ghosts out of the BMC."""
import z3

import mirdump
import models_std
import models_sync
import objects
import conc
from exec import Interp, State, Outcome, Unmodelled, Inconclusive
from values import *

MARKER = 0xD0
FEATURES = ('cluster',)

OIDS = {'status': 'status', 'adm': 'adm', 'msgq': 'msgq'}


def load():
    return mirdump.load('ractor', features=FEATURES)


def msg_ident(thread, j):
    return 1 + thread * 4 + j


def new_interp(prog, loop_bound=4):
    I = Interp(prog, mode='bv', loop_bound=loop_bound)
    models_std.install(I)
    models_sync.install(I)
    I.objinfo = {'status': {'name': 'status'}, 'adm': {'name': 'message_admission'}, 'msgq': {'name': 'message'}}

    def chan_ident(I, st, o, value):
        v = value
        if isinstance(v, Enum) and v.ty == 'MuxedMessage':
            if v.variant == 'Drain':
                return MARKER
            b = v.fields[0]
            if isinstance(b, Opaque) and b.tag == 'boxed':
                return b.info.ident
        raise Unmodelled('channel payload %r' % (value,))
    I.hooks['chan_ident'] = chan_ident

    @I.model(r'^<TMessage as Message>::box_message$', 'user Message::box_message (opaque: wraps the message; local actor)')
    def m_box(I, st, f, args, fr):
        msg = args[0]
        h = I.hooks.get('box_message')
        if h:
            r = h(I, st, msg, fr)
            if r is not None:
                return r
        return I.ret(st, models_std.ok(Opaque('boxed', ident=('boxed', msg.ident), info=msg)))

    @I.model(r'^<TMessage as Message>::from_boxed$', 'user Message::from_boxed (opaque: unwraps the same message)')
    def m_unbox(I, st, f, args, fr):
        b = args[0]
        if isinstance(b, Opaque) and b.tag == 'boxed':
            return I.ret(st, models_std.ok(b.info))
        raise Unmodelled('from_boxed of %r' % (b,))
    return I


def props_value(prog, I):
    """an ActorProperties aggregate whose synchronisation fields are handles of shared objects"""
    sd = prog.crate.struct('ActorProperties')
    if not sd:
        raise Inconclusive('ActorProperties not found in sources')
    fields = {}
    for n in sd['fields']:
        fields[n] = Opaque('props.' + n, ident='props.' + n)
    need = {'status', 'message', 'message_admission', 'id'}
    if not need <= set(sd['fields']):
        raise Inconclusive('ActorProperties fields changed: %s' % sd['fields'])
    fields['status'] = Obj('atomic', 'status', 'u8')
    fields['message_admission'] = Obj('atomic', 'adm', 'usize')
    fields['message'] = Obj('chan', 'msgq', 'tx')
    fields['id'] = Enum('ActorId', 'Local', 0, (I.mk_int(7, 'u64'),))
    return Agg('ActorProperties', [fields[n] for n in sd['fields']])


def shared_objects(status0=2, adm0=0, qcap=8):
    return {
        'status': ('atomic', objects.atomic_init(8, status0), {'bits': 8}),
        'adm': ('atomic', objects.atomic_init(64, adm0), {'bits': 64}),
        'msgq': ('chan', objects.chan_init(qcap), {'cap': qcap}),
    }


def run_calls(I, st, calls, call_base=0):
    """calls: list of (name, func_text, args builder(st) -> args). Runs them in sequence over all paths; marks call boundaries.
    returns list of (state, kind, [results])"""
    frontier = [(st, [])]
    done = []
    for ci0, (name, func, mkargs) in enumerate(calls):
        ci = ci0 + call_base
        nxt = []
        for s, results in frontier:
            s.trace.append(('MARK', 'call_begin', ci, name))
            body = I.prog.find_fn(func)
            if body is None:
                raise Inconclusive('function not found in dump: ' + func)
            I.stats['calls_inlined'].add(body.name)
            snap = (len(s.pc), len(s.trace), dict(s.cells), dict(s.objs), dict(s.ghost))
            for o in I.try_merge(snap, I.run_body(s, body, mkargs(s))):
                if o.kind == 'ret':
                    o.st.trace.append(('MARK', 'call_end', ci, name))
                    nxt.append((o.st, results + [o.val]))
                else:
                    done.append((o.st, o.kind, results + [o.val]))
        frontier = nxt
    for s, results in frontier:
        done.append((s, 'ret', results))
    return done


def classify_send(res, own_ident):
    """0 Ok, 1 SendErr(own message), 2 SendErr(another value), 3 InvalidActorType, 4 ChannelClosed, 9 other"""
    if isinstance(res, Enum) and res.ty == 'Result':
        if res.variant == 'Ok':
            return 0
        e = res.fields[0]
        if isinstance(e, BoxV):
            return 9
        if isinstance(e, Enum) and e.ty == 'MessagingErr':
            if e.variant == 'SendErr':
                m = e.fields[0]
                return 1 if isinstance(m, Opaque) and m.ident == own_ident else 2
            if e.variant == 'InvalidActorType':
                return 3
            if e.variant == 'ChannelClosed':
                return 4
    return 9


def first_event_nodes(tree, call_index):
    """event nodes that are the first event after the call_begin mark of call `call_index` (one per path prefix)"""
    out = []
    for n in tree.event_nodes():
        if any(m[0] == 'call_begin' and m[1] == call_index for m in n.marks):
            out.append(n)
    return out


def last_event_nodes(tree, call_index):
    """event nodes that are the last event before the call_end mark of call `call_index`"""
    out = []
    for n in tree.nodes:
        if any(m[0] == 'call_end' and m[1] == call_index for m in n.marks):
            # the mark sits on the edge leading to n: the last event of the call is n's parent
            if n.parent is not None and n.parent.kind == 'event':
                out.append(n.parent)
    return list({id(x): x for x in out}.values())


def pick_time(bmc, nodes, default):
    t = z3.BitVecVal(default, bmc.time_bits)
    for n in nodes:
        t = z3.If(bmc.executed[n], bmc.time[n], t)
    return t


def any_executed(bmc, nodes):
    return z3.Or([bmc.executed[n] for n in nodes]) if nodes else z3.BoolVal(False)


def send_events(trees, ident):
    out = []
    for tr in trees:
        for n in tr.event_nodes():
            if n.event.opname == 'send' and n.event.info == ident:
                out.append(n)
    return out


def count_true(conds, bits=8):
    t = z3.BitVecVal(0, bits)
    for c in conds:
        t = t + z3.If(c, z3.BitVecVal(1, bits), z3.BitVecVal(0, bits))
    return t
