"""Shared set-up for the concurrent mailbox checks (C02, C07): a detached `ActorProperties` whose shared fields are
modelled objects, thread programs for senders / drainers / stoppers and helpers to read ghosts out of the BMC."""
import z3

import mirdump
import models_std
import models_sync
import objects
import conc
from exec import Interp, State, Outcome, Unmodelled, Inconclusive
from values import *

MARKER = 0xD0
FEATURES = ('cluster',)

OIDS = {'status': 'status', 'adm': 'adm', 'msgq': 'msgq'}


def load():
    return mirdump.load('ractor', features=FEATURES)


def msg_ident(thread, j):
    return 1 + thread * 4 + j


def new_interp(prog, loop_bound=4):
    I = Interp(prog, mode='bv', loop_bound=loop_bound)
    models_std.install(I)
    models_sync.install(I)
    I.objinfo = {'status': {'name': 'status'}, 'adm': {'name': 'message_admission'}, 'msgq': {'name': 'message'}}

    def chan_ident(I, st, o, value):
        v = value
        if isinstance(v, Enum) and v.ty == 'MuxedMessage':
            if v.variant == 'Drain':
                return MARKER
            b = v.fields[0]
            if isinstance(b, Opaque) and b.tag == 'boxed':
                return b.info.ident
            if isinstance(b, Agg) and b.ty == 'BoxedMessage':
                # a message that travels in serialized form (send_serialized): identity = the serialized payload
                for x in b.fields:
                    if isinstance(x, Enum) and x.variant == 'Some' and x.fields and isinstance(x.fields[0], Opaque) and x.fields[0].tag == 'msg':
                        return x.fields[0].ident
        raise Unmodelled('channel payload %r' % (value,))
    I.hooks['chan_ident'] = chan_ident

    @I.model(r'^<TMessage as Message>::box_message$', 'user Message::box_message (opaque: wraps the message; local actor)')
    def m_box(I, st, f, args, fr):
        msg = args[0]
        h = I.hooks.get('box_message')
        if h:
            r = h(I, st, msg, fr)
            if r is not None:
                return r
        return I.ret(st, models_std.ok(Opaque('boxed', ident=('boxed', msg.ident), info=msg)))

    @I.model(r'^<TMessage as Message>::from_boxed$', 'user Message::from_boxed (opaque: unwraps the same message)')
    def m_unbox(I, st, f, args, fr):
        b = args[0]
        if isinstance(b, Opaque) and b.tag == 'boxed':
            return I.ret(st, models_std.ok(b.info))
        raise Unmodelled('from_boxed of %r' % (b,))
    return I


def props_value(prog, I):
    """an ActorProperties aggregate whose synchronisation fields are handles of shared objects"""
    sd = prog.crate.struct('ActorProperties')
    if not sd:
        raise Inconclusive('ActorProperties not found in sources')
    fields = {}
    for n in sd['fields']:
        fields[n] = Opaque('props.' + n, ident='props.' + n)
    need = {'status', 'message', 'message_admission', 'id'}
    if not need <= set(sd['fields']):
        raise Inconclusive('ActorProperties fields changed: %s' % sd['fields'])
    fields['status'] = Obj('atomic', 'status', 'u8')
    fields['message_admission'] = Obj('atomic', 'adm', 'usize')
    fields['message'] = Obj('chan', 'msgq', 'tx')
    fields['id'] = Enum('ActorId', 'Local', 0, (I.mk_int(7, 'u64'),))
    return Agg('ActorProperties', [fields[n] for n in sd['fields']])


def shared_objects(status0=2, adm0=0, qcap=8):
    return {
        'status': ('atomic', objects.atomic_init(8, status0), {'bits': 8}),
        'adm': ('atomic', objects.atomic_init(64, adm0), {'bits': 64}),
        'msgq': ('chan', objects.chan_init(qcap), {'cap': qcap}),
    }


def run_calls(I, st, calls, call_base=0):
    """calls: list of (name, func_text, args builder(st) -> args). Runs them in sequence over all paths; marks call boundaries.
    returns list of (state, kind, [results])"""
    frontier = [(st, [])]
    done = []
    for ci0, (name, func, mkargs) in enumerate(calls):
        ci = ci0 + call_base
        nxt = []
        for s, results in frontier:
            s.trace.append(('MARK', 'call_begin', ci, name))
            body = I.prog.find_fn(func)
            if body is None:
                raise Inconclusive('function not found in dump: ' + func)
            I.stats['calls_inlined'].add(body.name)
            snap = (len(s.pc), len(s.trace), dict(s.cells), dict(s.objs), dict(s.ghost))
            for o in I.try_merge(snap, I.run_body(s, body, mkargs(s))):
                if o.kind == 'ret':
                    o.st.trace.append(('MARK', 'call_end', ci, name))
                    nxt.append((o.st, results + [o.val]))
                else:
                    done.append((o.st, o.kind, results + [o.val]))
        frontier = nxt
    for s, results in frontier:
        done.append((s, 'ret', results))
    return done


def classify_send(res, own_ident):
    """0 Ok, 1 SendErr(own message), 2 SendErr(another value), 3 InvalidActorType, 4 ChannelClosed, 9 other"""
    if isinstance(res, Enum) and res.ty == 'Result':
        if res.variant == 'Ok':
            return 0
        e = res.fields[0]
        if isinstance(e, BoxV):
            return 9
        if isinstance(e, Enum) and e.ty == 'MessagingErr':
            if e.variant == 'SendErr':
                m = e.fields[0]
                return 1 if isinstance(m, Opaque) and m.ident == own_ident else 2
            if e.variant == 'InvalidActorType':
                return 3
            if e.variant == 'ChannelClosed':
                return 4
    return 9


def first_event_nodes(tree, call_index):
    """event nodes that are the first event after the call_begin mark of call `call_index` (one per path prefix)"""
    out = []
    for n in tree.event_nodes():
        if any(m[0] == 'call_begin' and m[1] == call_index for m in n.marks):
            out.append(n)
    return out


def last_event_nodes(tree, call_index):
    """event nodes that are the last event before the call_end mark of call `call_index`"""
    out = []
    for n in tree.nodes:
        if any(m[0] == 'call_end' and m[1] == call_index for m in n.marks):
            # the mark sits on the edge leading to n: the last event of the call is n's parent
            if n.parent is not None and n.parent.kind == 'event':
                out.append(n.parent)
    return list({id(x): x for x in out}.values())


def pick_time(bmc, nodes, default):
    t = z3.BitVecVal(default, bmc.time_bits)
    for n in nodes:
        t = z3.If(bmc.executed[n], bmc.time[n], t)
    return t


def any_executed(bmc, nodes):
    return z3.Or([bmc.executed[n] for n in nodes]) if nodes else z3.BoolVal(False)


def send_events(trees, ident):
    out = []
    for tr in trees:
        for n in tr.event_nodes():
            if n.event.opname == 'send' and n.event.info == ident:
                out.append(n)
    return out


def count_true(conds, bits=8):
    t = z3.BitVecVal(0, bits)
    for c in conds:
        t = t + z3.If(c, z3.BitVecVal(1, bits), z3.BitVecVal(0, bits))
    return t


# ==============================================================================================
# instances: senders / drainers / stopper over one detached mailbox
# ==============================================================================================
import os
import time

SEND = 'ActorProperties::send_message_unchecked::<TMessage>'
DRAIN = 'ActorProperties::drain'
SET_STATUS = 'ActorProperties::set_status'
PORTS_DROP = '<ActorPortSet as Drop>::drop'


def portset_value(prog, I):
    sd = prog.crate.struct('ActorPortSet')
    want = ['signal_rx', 'stop_rx', 'supervisor_rx', 'message_rx']
    if not sd or sorted(sd['fields']) != sorted(want):
        raise Inconclusive('ActorPortSet fields changed: %s' % (sd and sd['fields']))
    f = {'signal_rx': Obj('oneshot', 'sigq', 'rx'), 'stop_rx': Obj('oneshot', 'stopq', 'rx'), 'supervisor_rx': Obj('chan', 'supq', 'rx'),
         'message_rx': Obj('chan', 'msgq', 'rx')}
    return Agg('ActorPortSet', [f[n] for n in sd['fields']])


def install_receiver_models(I):
    import models_sync
    from models_std import ok, err, branch

    @I.model(r'UnboundedReceiver::<.*>::close$', 'mpsc::UnboundedReceiver::close')
    def m_rx_close(I, st, f, args, fr):
        o = models_sync.obj_at(I, st, args[0])
        if o.oid in I.hooks.get('ignore_objects', ()):
            return I.ret(st, UNIT)
        name = I.objinfo.get(o.oid, {}).get('name', str(o.oid))
        I.shared_op(st, o, 'close', objects.chan_close(), {}, label='%s.close' % name)
        return I.ret(st, UNIT)

    @I.model(r'UnboundedReceiver::<.*>::try_recv$', 'mpsc::UnboundedReceiver::try_recv')
    def m_rx_try_recv(I, st, f, args, fr):
        o = models_sync.obj_at(I, st, args[0])
        if o.oid in I.hooks.get('ignore_objects', ()):
            return I.ret(st, err(Enum('TryRecvError', 'Empty', 0, ())))
        name = I.objinfo.get(o.oid, {}).get('name', str(o.oid))
        res = I.shared_op(st, o, 'try_recv', objects.chan_recv(), {'has': 'bool', 'val': objects.ID_BITS, 'closed': 'bool'}, label='%s.try_recv' % name)
        outs = []
        for s2, has in branch(I, st, res['has']):
            if has:
                outs.append(Outcome(s2, 'ret', ok(Opaque('received', info=res['val']))))
            else:
                outs.append(Outcome(s2, 'ret', err(Enum('TryRecvError', 'Empty', 0, ()))))
        return outs

    @I.model(r'oneshot::Receiver::<.*>::close$', 'oneshot::Receiver::close')
    def m_os_close(I, st, f, args, fr):
        o = models_sync.obj_at(I, st, args[0])
        if o.oid in I.hooks.get('ignore_objects', ()):
            return I.ret(st, UNIT)
        I.shared_op(st, o, 'close', objects.oneshot_close(), {}, label='%s.close' % o.oid)
        return I.ret(st, UNIT)

    @I.model(r'oneshot::Receiver::<.*>::try_recv$', 'oneshot::Receiver::try_recv')
    def m_os_try_recv(I, st, f, args, fr):
        o = models_sync.obj_at(I, st, args[0])
        if o.oid in I.hooks.get('ignore_objects', ()):
            return I.ret(st, err(Enum('TryRecvError', 'Empty', 0, ())))
        res = I.shared_op(st, o, 'poll', objects.oneshot_poll(), {'ready_val': 'bool', 'ready_closed': 'bool', 'val': objects.ID_BITS}, label='%s.try_recv' % o.oid)
        outs = []
        for s2, has in branch(I, st, res['ready_val']):
            outs.append(Outcome(s2, 'ret', ok(Opaque('received', info=res['val'])) if has else err(Enum('TryRecvError', 'Empty', 0, ()))))
        return outs


SEND_SERIALIZED = 'ActorProperties::send_serialized'


def build_threads(prog, n_senders, n_msgs, n_drainers, n_stoppers, loop_bound, status0=2, never_closed=True, serialized=()):
    """returns (trees, meta, interps); senders whose index is in `serialized` deliver through send_serialized (the cluster entry point)"""
    trees, meta, interps = [], [], []
    tid = 0
    for i in range(n_senders):
        I = new_interp(prog, loop_bound)
        send_fn = SEND_SERIALIZED if i in serialized else SEND
        if never_closed and n_stoppers == 0:
            I.hooks['chan_never_closed'] = {'msgq'}
        pv = props_value(prog, I)
        idents = [msg_ident(i, j) for j in range(n_msgs)]

        def mkprog(j, pv=pv, idents=idents):
            def program(I, st):
                cell = st.alloc(pv)
                return run_calls(I, st, [('send%d' % j, send_fn, (lambda s: [Ref(cell, ()), Opaque('msg', ident=idents[j])]))], call_base=j)
            return program

        def summarize(s, kind, results, seg, idents=idents, I=I):
            r = results[0] if kind == 'ret' else None
            if isinstance(r, Enum) and r.variant == 'Err' and isinstance(r.fields[0], BoxV):
                r = Enum('Result', 'Err', 1, (I.read(s, r.fields[0].cell, ()),))     # send_serialized boxes its error
            return {'kind': kind, 'send': classify_send(r, idents[seg]) if kind == 'ret' else None}
        trees.append(conc.unfold(I, 'sender%d' % i, tid, State, [mkprog(j) for j in range(n_msgs)], summarize))
        meta.append({'kind': 'sender', 'idents': idents})
        interps.append(I)
        tid += 1
    for d in range(n_drainers):
        I = new_interp(prog, loop_bound)
        if never_closed and n_stoppers == 0:
            I.hooks['chan_never_closed'] = {'msgq'}
        pv = props_value(prog, I)

        def program(I, st, pv=pv):
            cell = st.alloc(pv)
            return run_calls(I, st, [('drain', DRAIN, lambda s: [Ref(cell, ())])])

        def summarize(s, kind, results, seg):
            r = results[0] if results else None
            return {'kind': kind, 'drain_ok': isinstance(r, Enum) and r.variant == 'Ok'}
        trees.append(conc.unfold(I, 'drainer%d' % d, tid, State, program, summarize))
        meta.append({'kind': 'drainer'})
        interps.append(I)
        tid += 1
    for k in range(n_stoppers):
        # the exiting actor task: publishes Stopping (ActorProperties::set_status) and drops its port set (close + flush)
        I = new_interp(prog, max(loop_bound, 2 + n_senders * n_msgs + 1))
        install_receiver_models(I)
        I.hooks['ignore_objects'] = {'sigq', 'stopq', 'supq'}
        I.objinfo['supq'] = {'name': 'supervision'}
        pv = props_value(prog, I)
        ports = portset_value(prog, I)

        def program(I, st, pv=pv, ports=ports):
            cell = st.alloc(pv)
            pcell = st.alloc(ports)
            stopping = Enum('ActorStatus', 'Stopping', 5, ())
            return run_calls(I, st, [('set_status', SET_STATUS, lambda s: [Ref(cell, ()), stopping]),
                                     ('ports_drop', PORTS_DROP, lambda s: [Ref(pcell, (), True)])])

        def summarize(s, kind, results, seg):
            return {'kind': kind}

        # the supervision channel is not part of this instance: its close/try_recv are skipped
        orig_close = None
        trees.append(conc.unfold(I, 'stopper%d' % k, tid, State, program, summarize))
        meta.append({'kind': 'stopper'})
        interps.append(I)
        tid += 1
    return trees, meta, interps


def oracle(bmc, trees, meta, prop):
    """returns (premise, dict name -> claim)"""
    T = len(trees)
    claims = {}
    all_leaf = z3.And([bmc.finished(t, ('ret', 'unwind', 'abort')) for t in range(T)])
    claims['no_thread_panics'] = z3.And([bmc.finished(t, ('ret',)) for t in range(T)])
    marker_nodes = send_events(trees, MARKER)
    marker_sent = [z3.And(bmc.executed[n], n.event.res['ok']) for n in marker_nodes]
    n_markers = count_true(marker_sent)
    has_drainer = any(m['kind'] == 'drainer' for m in meta)
    has_stopper = any(m['kind'] == 'stopper' for m in meta)
    if has_drainer and not has_stopper:
        claims['exactly_one_marker'] = n_markers == 1
    else:
        claims['at_most_one_marker'] = z3.ULE(n_markers, 1)
    marker_pos = z3.BitVecVal(255, 8)
    for n, c in zip(marker_nodes, marker_sent):
        marker_pos = z3.If(c, n.event.res['apos'], marker_pos)
    claims['queue_model_not_overflowed'] = z3.And([z3.Not(z3.And(bmc.executed[n], n.event.res['overflow'])) for tr in trees for n in tr.event_nodes() if n.event.opname == 'send'] or [z3.BoolVal(True)])
    if has_drainer:
        claims['status_at_least_draining'] = z3.UGE(bmc.final_state('status')['w'], 4)
    if has_stopper:
        q = bmc.final_state('msgq')
        claims['queue_closed_and_flushed_by_exit'] = z3.And(q['closed'], q['len'] == 0)
    drain_last = []
    for t, m in enumerate(meta):
        if m['kind'] == 'drainer':
            drain_last.append(pick_time(bmc, last_event_nodes(trees[t], 0), 0))
    for t, m in enumerate(meta):
        if m['kind'] != 'sender':
            continue
        prev_pos = None
        prev_ok = None
        for j, ident in enumerate(m['idents']):
            ret = bmc.leaf_select(t, lambda leaf: z3.BitVecVal(leaf.data['send'], 4), z3.BitVecVal(15, 4), seg=j)
            evs = send_events(trees, ident)
            enq = [z3.And(bmc.executed[n], n.event.res['ok']) for n in evs]
            cnt = count_true(enq)
            apos = z3.BitVecVal(254, 8)
            for n, c in zip(evs, enq):
                apos = z3.If(c, n.event.res['apos'], apos)
            nm = 't%d.m%d' % (t, j)
            before_marker = z3.ULT(apos, marker_pos) if has_drainer else z3.BoolVal(True)
            claims[nm + '.ok_implies_enqueued_once_before_marker'] = z3.Implies(ret == 0, z3.And(cnt == 1, before_marker))
            claims[nm + '.err_returns_own_message_unqueued'] = z3.Implies(ret != 0, z3.And(ret == 1, cnt == 0))
            first = pick_time(bmc, first_event_nodes(trees[t], j), 0)
            for k, dl in enumerate(drain_last):
                claims[nm + '.refused_after_drain%d_returned' % k] = z3.Implies(z3.UGT(first, dl), ret == 1)
            if prev_pos is not None:
                claims[nm + '.program_order'] = z3.Implies(z3.And(prev_ok, ret == 0), z3.ULT(prev_pos, apos))
            prev_pos, prev_ok = apos, ret == 0
    return all_leaf, claims


def run_instance(ctx, prop, prog, name, n_senders, n_msgs, n_drainers, n_stoppers, rounds, loop_bound, status0=2, spurious=False, serialized=()):
    t0 = time.time()
    trees, meta, interps = build_threads(prog, n_senders, n_msgs, n_drainers, n_stoppers, loop_bound, status0, serialized=serialized)
    for I in interps:
        ctx.absorb(I)
    order = list(range(len(trees)))
    if ctx.seed:
        import random
        random.Random(ctx.seed).shuffle(order)
    qcap = 0 if n_stoppers == 0 else max(4, n_senders * n_msgs + 2)
    objs = shared_objects(status0=status0, qcap=qcap)
    bmc = conc.BMC(objs, trees, rounds, order=order, no_spurious=not spurious)
    premise, claims = oracle(bmc, trees, meta, prop)
    info = {'instance': name, 'threads': [tr.name for tr in trees], 'paths': [tr.paths for tr in trees], 'nodes': [len(tr.nodes) for tr in trees],
            'event_depth': [tr.max_event_depth() for tr in trees], 'rounds': rounds, 'slots': bmc.S, 'cas_unroll': loop_bound, 'spurious_cas': spurious,
            'unfold_s': round(time.time() - t0, 2)}
    ctx.extra.setdefault('instances', []).append(info)
    T = len(trees)
    trunc_free = z3.And([z3.Not(bmc.at_leaf_kind(t, 'trunc')) for t in range(T)])
    ret0 = bmc.leaf_select(0, lambda leaf: z3.BitVecVal(leaf.data['send'], 4), z3.BitVecVal(15, 4)) if meta[0]['kind'] == 'sender' else None
    sender_marker = [z3.And(bmc.executed[n], n.event.res['ok']) for t, m in enumerate(meta) if m['kind'] == 'sender' for n in send_events([trees[t]], MARKER)]
    chan_fail = [z3.And(bmc.executed[n], z3.Not(n.event.res['ok'])) for t, m in enumerate(meta) if m['kind'] == 'sender' for n in trees[t].event_nodes()
                 if n.event.opname == 'send' and n.event.info != MARKER]
    base = list(bmc.cons)
    ctx.witness(name + '.all_threads_can_finish', base + [premise, trunc_free], logic='QF_BV')
    if ret0 is not None and (n_drainers or n_stoppers):
        ctx.witness(name + '.a_send_is_refused', base + [premise, ret0 == 1], logic='QF_BV')
        ctx.witness(name + '.a_send_is_accepted', base + [premise, ret0 == 0], logic='QF_BV')
    if sender_marker and n_drainers:
        ctx.witness(name + '.marker_sent_by_last_ticket_holder', base + [premise, z3.Or(sender_marker)], logic='QF_BV')
    if n_stoppers and chan_fail:
        ctx.witness(name + '.admitted_send_hits_closed_channel', base + [premise, z3.Or(chan_fail)], logic='QF_BV')
    allc = z3.And(list(claims.values()))
    t1 = time.time()
    r, m = ctx.solve(base + [premise, trunc_free, z3.Not(allc)], logic='QF_BV')
    dt = time.time() - t1
    info['main_query_s'] = round(dt, 1)
    if r == 'unsat':
        for cn in claims:
            ctx.obligations.append({'name': '%s.%s' % (name, cn), 'group': '%s.%s' % (prop, cn.split('.')[-1]), 'status': 'proved', 'solver_s': round(dt / len(claims), 3)})
        ctx.samples.append({'instance': info, 'claims': list(claims)[:14], 'verdict': 'unsat: no schedule within the bound violates any claim'})
    elif r == 'unknown':
        ctx.inconclusive.append('solver unknown on instance %s: %s' % (name, m))
    else:
        bad = [cn for cn, c in claims.items() if z3.is_false(m.eval(c, model_completion=True))]
        sched = bmc.schedule_from_model(m)
        rec = {'name': '%s.%s' % (name, bad[0] if bad else 'claims'), 'group': prop, 'status': 'cex', 'solver_s': round(dt, 3), 'violated': bad,
               'schedule': [(t, lbl) for (_, t, _, lbl, _) in sched]}

        def on_cex(model):
            import mailbox_replay
            return mailbox_replay.replay(prop, n_senders, n_msgs, n_drainers, n_stoppers, status0, sched, bad, serialized=serialized)
        ctx.handle_cex(rec['name'], '%s.%s' % (prop, bad[0].split('.')[-1] if bad else 'claims'), m, on_cex, rec)
        ctx.obligations.append(rec)
    r2, m2 = ctx.solve(base + [z3.Or([bmc.at_leaf_kind(t, 'trunc') for t in range(T)])], timeout_ms=60000, logic='QF_BV')
    info['truncated_leaf_reachable'] = r2
    return info
