def check(ctx, prog):
    return
