"""C03 (dispatch part): what one `process_message` iteration does with the item the select returned (L1 of lifetrace.py)"""
import z3

import lifetrace as lt
import lifeprops as lp
from values import *


def check(ctx, prog, runtime='ActorRuntime'):
    I1, a1, pm = lt.explore_process_message(prog, runtime, 1, loop_status=(2, 4))
    ctx.absorb(I1)
    b = prog.find_fn('%s::<TActor>::process_message' % runtime)
    ctx.encoded(prog, b)
    seen = set()
    for k, r in enumerate(pm):
        if r['klass'] is None:
            continue
        st = r['state']
        name = 'dispatch.path%d' % k
        first = r['recvs'][0][1] if r['recvs'] else None
        starts = [e[2] for e in r['cbs'] if e[1] == 'start']
        kind, cb = r['klass']
        claims = {}
        if first == 'sigq':
            claims['signal_kills_without_starting_a_callback'] = kind == 'killed' and not starts
        elif first == 'stopq':
            reason = r.get('loop_result', {}).get('exit_reason')
            okr = isinstance(reason, Enum) and (reason.variant == 'None' or (isinstance(reason.fields[0], Opaque) and reason.fields[0].ident == 'the-stop-reason'))
            claims['stop_exits_gracefully_with_the_sent_reason'] = kind == 'stop' and not starts and okr
        elif first == 'supq':
            claims['supervision_event_goes_to_its_handler_once'] = starts == ['handle_supervisor_evt'] and kind in ('continue', 'err', 'panic', 'killed')
        elif first == 'msgq':
            if kind == 'stop':
                reason = r['loop_result']['exit_reason']
                claims['drain_marker_stops_with_reason_drained'] = (not starts and isinstance(reason, Enum) and reason.variant == 'Some' and isinstance(reason.fields[0], Str)
                                                                    and reason.fields[0].s == 'Drained')
            else:
                claims['message_goes_to_handle_at_most_once'] = starts in ([], ['handle']) and kind in ('continue', 'err', 'panic', 'killed')
                if not starts:
                    seen.add('undecodable_message_dropped_or_failed')
        else:
            claims['closed_ports_are_treated_as_kill'] = kind == 'killed' and not starts
        # immediate kill: once the signal was received nothing of a callback is polled any more
        tr = st.trace
        si = next((i for i, e in enumerate(tr) if e[0] == 'RECV' and e[1] == 'sigq'), None)
        if si is not None:
            claims['nothing_polled_after_the_kill_signal'] = not any(e[0] == 'CB' and e[1] in ('poll', 'start') for e in tr[si + 1:])
            if any(e[0] == 'CB' and e[1] == 'cancelled' for e in tr):
                seen.add('running_handler_cancelled_by_kill')
        seen.add('first:%s' % first)
        lp.record(ctx, name, st, claims, 'C03.dispatch', sample={'selected_port': first, 'class': r['klass'], 'callbacks': starts},
                  on_cex=lambda m, r=r: replay(r))
    for w in ('first:sigq', 'first:stopq', 'first:supq', 'first:msgq', 'first:None', 'running_handler_cancelled_by_kill', 'undecodable_message_dropped_or_failed'):
        ctx.note_witness('C03.dispatch.' + w, w in seen)


def replay(r):
    import life_replay
    # one iteration embedded in a minimal life: start-up ok, then this iteration
    pre = [('CB', 'start', 'pre_start', 1), ('CB', 'end', 'pre_start', 1, 'ok'), ('START_OK',), ('CB', 'start', 'post_start', 2), ('CB', 'end', 'post_start', 2, 'ok')]
    tr = pre + [e for e in r['state'].trace if e[0] == 'CB' and e[1] in ('start', 'end', 'cancelled')]
    kind = r['klass'][0]
    if kind in ('stop', 'killed', 'err', 'panic'):
        tr.append(('LOOPEXIT', kind))
    return life_replay.replay_trace('dispatch', tr, 'C03')
