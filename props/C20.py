"""C20 - Remote actors behave like the actors they stand for: the reply-correlation and verbatim-forwarding slice.

  (P) the proxy: `<RemoteActor as Actor>::handle_serialized` (real MIR, incl. `cleanup_closed_pending_requests`, `get_and_increment_mtag`,
      `remove_pending_request`) from every concrete-shape state (0..2 pending requests with symbolic, ordered tags below the symbolic tag counter,
      ports open or closed, cleanup cursor absent or symbolic) on Call / Cast / CallReply with symbolic fields
  (S) the receiving session: the Cast / Call / Reply arms of `NodeSession::handle_node` on an authenticated session, and the reply task a Call spawns
"""
import re
import z3

import cluster as cl
import lifecycle as lc
import lifeprops as lp
import models_std
import models_async
import C17 as fsm
import C17_gates as gates
from exec import State, Outcome, Inconclusive, Unmodelled, val_key
from values import *

NODE_ID = 3


# ------------------------------------------------------------------ (P) proxy
def proxy_interp(prog):
    I = cl.new_interp(prog, loop_bound=20)
    models_async.install(I, 1)

    @I.model(r'(^|::)ActorRef::<.*>::cast$|<impl (\w+::)*ActorRef<.*>>::cast$', 'ActorRef::cast to the session (succeeds or fails)')
    def m_cast(I, st, f, args, fr):
        okk = I.fresh_bool('cast_ok')
        st.emit('CAST', args[1], okk, getattr(models_std.deref_val(I, st, args[0]), 'ident', None))
        outs = []
        for s2, succ in models_std.branch(I, st, okk):
            outs.append(Outcome(s2, 'ret', models_std.ok(UNIT) if succ else models_std.err(Enum('MessagingErr', 'SendErr', 0, (args[1],)))))
        return outs

    @I.model(r'^<(\w+::)*ActorRef<.*> as Deref>::deref$', 'ActorRef deref')
    def m_deref(I, st, f, args, fr):
        return I.ret(st, args[0])

    @I.model(r'(^|::)ActorRef::<.*>::get_id$|(^|::)ActorCell::get_id$', 'get_id of the proxy: Remote { node, pid }')
    def m_id(I, st, f, args, fr):
        return I.ret(st, Enum('ActorId', 'Remote', 1, (I.mk_int(NODE_ID, 'u64'), st.ghost['pid'])))

    @I.model(r'(^|::)ActorId::pid$', 'ActorId::pid')
    def m_pid(I, st, f, args, fr):
        return I.ret(st, models_std.deref_val(I, st, args[0]).fields[-1])

    @I.model(r'^<(\w+::)*RactorErr<.*> as From<.*>>::from$', 'RactorErr::from')
    def m_rerr(I, st, f, args, fr):
        return I.ret(st, Opaque('RactorErr', info=args[0]))

    @I.model(r'(^|::)RpcReplyPort::<.*>::is_closed$', 'RpcReplyPort::is_closed: any, fixed per port')
    def m_closed(I, st, f, args, fr):
        p = models_std.deref_val(I, st, args[0])
        k = ('closed', p.fields[0].ident)
        if k not in st.ghost:
            st.ghost[k] = z3.Bool('closed_%s' % p.fields[0].ident)
        return I.ret(st, st.ghost[k])

    @I.model(r'(^|::)RpcReplyPort::<.*>::get_timeout$', 'RpcReplyPort::get_timeout')
    def m_gt(I, st, f, args, fr):
        return I.ret(st, models_std.deref_val(I, st, args[0]).fields[1])

    @I.model(r'(^|::)RpcReplyPort::<.*>::send$', 'RpcReplyPort::send (recorded)')
    def m_ps(I, st, f, args, fr):
        st.emit('REPLY', args[0].fields[0].ident, args[1])
        return I.ret(st, models_std.ok(UNIT))
    return I


def port(ident, tmo=None):
    return Agg('RpcReplyPort', (Opaque('OneshotSender', ident=ident), models_std.NONE if tmo is None else models_std.some(tmo)))


def check_proxy(ctx, prog):
    fn = '<RemoteActor as Actor>::handle_serialized'
    body = prog.find_fn(fn)
    if body is None:
        raise Inconclusive('RemoteActor::handle_serialized not found')
    ctx.encoded(prog, body)
    for f in ('RemoteActorState::cleanup_closed_pending_requests', 'RemoteActorState::get_and_increment_mtag', 'RemoteActorState::remove_pending_request'):
        b = prog.find_fn(f)
        if b is None:
            raise Inconclusive(f + ' not found')
        ctx.encoded(prog, b)
    sd = prog.crate.struct('RemoteActorState')
    if not sd or sorted(sd['fields']) != ['message_tag', 'pending_request_cleanup_cursor', 'pending_requests', 'session']:
        raise Inconclusive('RemoteActorState fields changed')
    seen = set()
    for npend in (0, 1, 2):
        for cursor in ('none', 'some'):
            for kind in ('Call/timeout', 'Call/no-timeout', 'Cast', 'CallReply'):
                I = proxy_interp(prog)
                st = State()
                pid = I.fresh_int('pid', 'u64', st)
                st.ghost['pid'] = pid
                mt = I.fresh_int('message_tag', 'u64', st)
                st.assume(z3.ULT(mt.t, (1 << 63)))
                tags = [I.fresh_int('tag%d' % i, 'u64', st) for i in range(npend)]
                # representation invariant: pending tags are distinct (a BTreeMap), ordered, and were all handed out already
                for a, b in zip(tags, tags[1:]):
                    st.assume(z3.ULT(a.t, b.t))
                for t in tags:
                    st.assume(z3.And(z3.UGE(t.t, 1), z3.ULE(t.t, mt.t)))
                ports = [port('port%d' % i) for i in range(npend)]
                cur = models_std.NONE if cursor == 'none' else models_std.some(I.fresh_int('cursor', 'u64', st))
                state = cl.record(prog, 'RemoteActorState', message_tag=mt, pending_requests=Agg('BTreeMap', [Agg('()', (t, p)) for t, p in zip(tags, ports)]),
                                  pending_request_cleanup_cursor=cur, session=Opaque('ActorRef', ident='session'))
                sc = st.alloc(state)
                args_v, variant_v, meta_v = Opaque('args', ident='args'), Opaque('variant', ident='variant'), Opaque('metadata', ident='metadata')
                rtag = I.fresh_int('reply_tag', 'u64', st)
                data = Opaque('reply-data', ident='reply-data')
                tmo = I.fresh_int('timeout_ms', 'u128', st)
                if kind.startswith('Call/'):
                    msg = cl.variant(prog, 'SerializedMessage', 'Call', (variant_v, args_v, port('new-port', I.mk_duration(tmo) if kind.endswith('/timeout') else None), meta_v))
                elif kind == 'Cast':
                    msg = cl.variant(prog, 'SerializedMessage', 'Cast', (variant_v, args_v, meta_v))
                else:
                    msg = cl.variant(prog, 'SerializedMessage', 'CallReply', (rtag, data))
                st, coro = lc.make_coro(I, st, prog, fn, [Ref(st.alloc(Opaque('RemoteActor')), ()), Opaque('ActorRef', ident='myself'), msg, Ref(sc, (), True)])
                cc = st.alloc(coro)
                outs = lc.poll_coro(I, st, cc)
                ctx.absorb(I)
                ctx.paths += len(outs)
                for n, o in enumerate(outs):
                    name = 'proxy.%s.pending%d.cursor_%s.path%d' % (kind, npend, cursor, n)
                    cex = (lambda kind=kind, npend=npend: (lambda m: replay('proxy', {'kind': kind, 'pending': npend})))()
                    done = o.kind == 'ret' and isinstance(o.val, Enum) and o.val.variant == 'Ready' and o.val.fields[0].variant == 'Ok'
                    if not done:
                        lp.record(ctx, name, o.st, {'handler_completes_ok_in_one_poll': False}, 'C20.proxy', on_cex=cex)
                        continue
                    s = o.st
                    post = I.read(s, sc, ())
                    pm = cl.field(prog, post, 'RemoteActorState', 'pending_requests')
                    mt2 = cl.field(prog, post, 'RemoteActorState', 'message_tag')
                    ents = [(e.fields[0], e.fields[1].fields[0].ident) for e in pm.fields]
                    casts = [e for e in s.trace if e[0] == 'CAST']
                    replies = [e for e in s.trace if e[0] == 'REPLY']
                    grp = 'C20.proxy'
                    claims = {}
                    # tags stay distinct, ordered, and never exceed the counter (so the next one is fresh)
                    for (a, _), (b, _) in zip(ents, ents[1:]):
                        ctx.prove(name + '.pending_tags_stay_ordered_and_distinct', s.pc, z3.ULT(a.t, b.t), group=grp + '.pending_tags_stay_ordered_and_distinct', key=grp + '.invariant', on_cex=cex)
                    for (a, _) in ents:
                        ctx.prove(name + '.pending_tags_below_counter', s.pc, z3.ULE(a.t, mt2.t), group=grp + '.pending_tags_below_counter', key=grp + '.invariant', on_cex=cex)
                    # old requests disappear only if their port is closed (cleanup) or they were answered by this very message
                    kept_old = {i for (_, i) in ents}
                    answered = {e[1] for e in replies}
                    for i in range(npend):
                        pi = 'port%d' % i
                        if pi not in kept_old and pi not in answered:
                            ctx.prove('%s.%s_dropped_only_if_closed' % (name, pi), s.pc, s.ghost.get(('closed', pi), z3.BoolVal(False)), group=grp + '.open_requests_are_never_dropped', key=grp + '.cleanup', on_cex=cex)
                            seen.add('cleanup')
                    if kind.startswith('Call/'):
                        okk = len(casts) == 1 and not replies
                        sent = None
                        if okk:
                            m_ = casts[0][1]
                            try:
                                nm = m_.fields[0]
                                call = nm.fields[0].fields[0].fields[0]
                                okk = m_.variant == 'SendMessage' and nm.fields[0].fields[0].variant == 'Call' and casts[0][3] == 'session'
                                sent = {k: cl.field(prog, call, 'Call', k, 'out/node.rs') for k in ('to', 'what', 'tag', 'timeout_ms', 'variant', 'metadata')}
                            except Exception:   # noqa
                                okk = False
                        claims['one_call_frame_to_the_session_and_no_reply'] = okk
                        if sent:
                            claims['call_forwards_payload_verbatim'] = sent['what'] is args_v and sent['variant'] is variant_v and sent['metadata'] is meta_v
                            ctx.prove(name + '.call_addresses_the_remote_pid', s.pc, sent['to'].t == pid.t, group=grp + '.call_addresses_the_remote_pid', key=grp + '.call', on_cex=cex)
                            ctx.prove(name + '.tag_is_counter_plus_one', s.pc, z3.And(sent['tag'].t == mt.t + 1, mt2.t == mt.t + 1), group=grp + '.tag_is_counter_plus_one', key=grp + '.call', on_cex=cex)
                            for t in tags:
                                ctx.prove(name + '.tag_is_fresh', s.pc, sent['tag'].t != t.t, group=grp + '.tag_is_fresh', key=grp + '.call', on_cex=cex)
                            if kind.endswith('/timeout'):
                                claims['timeout_is_forwarded'] = isinstance(sent['timeout_ms'], Enum) and sent['timeout_ms'].variant == 'Some'
                                if claims['timeout_is_forwarded']:
                                    ms = z3.UDiv(tmo.t, z3.BitVecVal(1000000, 128))
                                    ctx.prove(name + '.timeout_in_milliseconds', s.pc, z3.ZeroExt(64, sent['timeout_ms'].fields[0].t) == z3.ZeroExt(64, z3.Extract(63, 0, ms)),
                                              group=grp + '.timeout_in_milliseconds', key=grp + '.call', on_cex=cex)
                            else:
                                claims['no_timeout_invented'] = isinstance(sent['timeout_ms'], Enum) and sent['timeout_ms'].variant == 'None'
                            # the reply port is stored under exactly the tag that went out - iff the frame was accepted by the session
                            stored = [(t, i) for (t, i) in ents if i == 'new-port']
                            ctx.prove(name + '.port_stored_iff_frame_accepted', s.pc, z3.BoolVal(len(stored) == 1) == casts[0][2], group=grp + '.port_stored_iff_frame_accepted', key=grp + '.call', on_cex=cex)
                            for (t, _i) in stored:
                                ctx.prove(name + '.port_stored_under_the_outgoing_tag', s.pc, t.t == sent['tag'].t, group=grp + '.port_stored_under_the_outgoing_tag', key=grp + '.call', on_cex=cex)
                            seen.add('call')
                    elif kind == 'Cast':
                        okk = len(casts) == 1 and not replies
                        if okk:
                            try:
                                c_ = casts[0][1].fields[0].fields[0].fields[0].fields[0]
                                okk = casts[0][1].fields[0].fields[0].fields[0].variant == 'Cast'
                                f_ = {k: cl.field(prog, c_, 'Cast', k, 'out/node.rs') for k in ('to', 'what', 'variant', 'metadata')}
                                claims['cast_forwards_payload_verbatim'] = f_['what'] is args_v and f_['variant'] is variant_v and f_['metadata'] is meta_v
                                ctx.prove(name + '.cast_addresses_the_remote_pid', s.pc, f_['to'].t == pid.t, group=grp + '.cast_addresses_the_remote_pid', key=grp + '.cast', on_cex=cex)
                            except Exception:   # noqa
                                okk = False
                        claims['one_cast_frame_to_the_session'] = okk
                        claims['cast_leaves_the_counter_alone'] = val_key(mt2) == val_key(mt)
                        seen.add('cast')
                    else:
                        claims['reply_sends_no_frame'] = not casts
                        claims['at_most_one_port_resolved'] = len(replies) <= 1
                        for e in replies:
                            i = int(e[1][4:]) if e[1].startswith('port') and e[1][4:].isdigit() else None
                            claims['reply_data_verbatim'] = e[2] is data
                            if i is None:
                                claims['reply_resolves_a_pending_port'] = False
                            else:
                                ctx.prove(name + '.reply_resolves_the_port_stored_under_its_tag', s.pc, rtag.t == tags[i].t, group=grp + '.reply_resolves_the_port_stored_under_its_tag', key=grp + '.reply', on_cex=cex)
                                claims['resolved_port_is_removed'] = e[1] not in kept_old
                                seen.add('reply')
                        if not replies:
                            # nothing resolved: the tag matches no request that is still pending after cleanup
                            for (t, i) in ents:
                                ctx.prove('%s.unanswered_means_no_pending_match.%s' % (name, i), s.pc, rtag.t != t.t, group=grp + '.unanswered_means_no_pending_match', key=grp + '.reply', on_cex=cex)
                            seen.add('stale_reply_dropped')
                        claims['reply_leaves_the_counter_alone'] = val_key(mt2) == val_key(mt)
                    lp.record(ctx, name, s, claims, grp, sample={'message': kind, 'pending_before': npend, 'pending_after': [i for _, i in ents], 'frames': len(casts), 'resolved': [e[1] for e in replies]} if n == 0 and npend == 1 else None, on_cex=cex)
    for w in ('call', 'cast', 'reply', 'stale_reply_dropped', 'cleanup'):
        ctx.note_witness('C20.proxy.' + w, w in seen)


# ------------------------------------------------------------------ (S) session side
def check_session(ctx, prog):
    body = prog.find_fn('NodeSession::handle_node')
    if body is None:
        raise Inconclusive('handle_node not found')
    ctx.encoded(prog, body)
    I = gates.session_interp(prog, effects=False)

    # the reply task of a Call: its receiver yields a reply, an error, or (with a timeout) nothing in time
    I.models[:] = [(rx, fn, lab) for (rx, fn, lab) in I.models if 'concurrency::spawn' not in rx.pattern and 'concurrency::oneshot' not in rx.pattern]

    @I.model(r'(^|::)concurrency::oneshot(::<.*>)?$|^oneshot::<.*>$', 'ractor::concurrency::oneshot: a fresh channel (receiver = environment)')
    def m_os(I, st, f, args, fr):
        return I.ret(st, Agg('()', (Opaque('OneshotSender', ident='tx'), Agg('ReplyRx', ()))))

    @I.model(r'(^|::)concurrency::spawn(::<.*>)?$|^spawn::<.*>$', 'ractor::concurrency::spawn (task driven by the harness)')
    def m_sp(I, st, f, args, fr):
        c = st.alloc(args[0])
        st.ghost['spawned'] = st.ghost.get('spawned', ()) + (c,)
        st.emit('SPAWN', f)
        return I.ret(st, Opaque('JoinHandle'))

    @I.model(r'(^|::)concurrency::timeout(::<.*>)?$|^timeout::<.*>$', 'ractor::concurrency::timeout (future)')
    def m_to(I, st, f, args, fr):
        return I.ret(st, Agg('TimeoutFut', (args[0], args[1])))
    prev = I.hooks.get('poll_other')

    def poll_other(I, st, v, cell, path, cx, fr):
        if isinstance(v, Agg) and v.ty == 'ReplyRx':
            s2 = st.fork()
            res = Opaque('callee-reply', ident='callee-reply')
            st.emit('RX', 'value')
            s2.emit('RX', 'dropped')
            return [Outcome(st, 'ret', models_std.ready(models_std.ok(res))), Outcome(s2, 'ret', models_std.ready(models_std.err(Agg('RecvError', ()))))]
        if isinstance(v, Agg) and v.ty == 'TimeoutFut':
            outs = []
            for o in I.poll_at(I, st, cell, path + (1,), cx, fr):
                if o.kind == 'ret' and o.val.variant == 'Ready':
                    outs.append(Outcome(o.st, 'ret', models_std.ready(models_std.ok(o.val.fields[0]))))
                else:
                    outs.append(o)
            s3 = st.fork()
            s3.emit('RX', 'timeout')
            outs.append(Outcome(s3, 'ret', models_std.ready(models_std.err(Agg('Timeout', ())))))
            return outs
        return prev(I, st, v, cell, path, cx, fr) if prev else None
    I.hooks['poll_other'] = poll_other

    st0 = State()
    av = [a for a in fsm.auth_states(prog, I, st0) if a[0] == 'AsServer(Ok)'][0][1]
    seen = set()
    adv = I.fresh_int('advertised', 'u64', st0)
    to = I.fresh_int('to', 'u64', st0)
    st0.assume(to.t == adv.t)
    proxy = Opaque('ActorRef', ident='proxy-actor')
    for mname, mv in gates.node_messages(prog, I, st0, to):
        if mname == 'None':
            continue
        st = st0.fork()
        remote = Agg('HashMap', (Agg('()', (I.fresh_int('proxy_pid', 'u64', st), proxy)),))
        pre = gates.session_state(prog, I, st, av, advertised_local_pids=Agg('HashSet', (adv,)), remote_actors=remote)
        sc = st.alloc(pre)
        selfc = gates.session_self(prog, st)
        pl = mv.fields[0].fields[0]
        msg = cl.record(prog, 'NodeMessage', 'out/node.rs', msg=mv)
        n0 = len(st.trace)
        outs = I.run_body(st, body, [Ref(selfc, ()), Ref(sc, (), True), msg, Opaque('ActorRef', ident='myself')])
        ctx.paths += len(outs)
        for k, o in enumerate(outs):
            name = 'session.%s.path%d' % (mname, k)
            cex = (lambda mname=mname: (lambda m: replay('session', {'kind': mname})))()
            if o.kind != 'ret':
                lp.record(ctx, name, o.st, {'handler_returns': False}, 'C20.session', on_cex=cex)
                continue
            dl = [e for e in o.st.trace[n0:] if e[0] == 'DELIVER']
            claims = {}
            for e in dl:
                sm = e[2]
                if mname == 'Cast':
                    f_ = {k_: cl.field(prog, pl, 'Cast', k_, 'out/node.rs') for k_ in ('what', 'variant', 'metadata')}
                    claims['cast_delivered_verbatim'] = (isinstance(sm, Enum) and sm.variant == 'Cast' and sm.fields[0] is f_['variant'] and sm.fields[1] is f_['what'] and sm.fields[2] is f_['metadata'])
                    seen.add('cast')
                elif mname.startswith('Call'):
                    f_ = {k_: cl.field(prog, pl, 'Call', k_, 'out/node.rs') for k_ in ('what', 'variant', 'metadata')}
                    claims['call_delivered_verbatim'] = (isinstance(sm, Enum) and sm.variant == 'Call' and sm.fields[0] is f_['variant'] and sm.fields[1] is f_['what'] and sm.fields[3] is f_['metadata'])
                    seen.add('call')
                else:
                    f_ = {k_: cl.field(prog, pl, 'CallReply', k_, 'out/node.rs') for k_ in ('to', 'tag', 'what')}
                    claims['reply_goes_to_the_proxy_registered_for_its_pid'] = isinstance(e[1], Opaque) and e[1].ident == 'proxy-actor'
                    claims['reply_delivered_verbatim'] = isinstance(sm, Enum) and sm.variant == 'CallReply' and sm.fields[0] is f_['tag'] and sm.fields[1] is f_['what']
                    seen.add('reply')
            if mname.startswith('Call') and dl:
                # the reply task echoes the request's tag and pid with the callee's answer, once, to this very session; nothing on error / timeout
                sp = o.st.ghost.get('spawned', ())
                claims['one_reply_task_per_delivered_call'] = len(sp) == 1
                if len(sp) == 1:
                    f_ = {k_: cl.field(prog, pl, 'Call', k_, 'out/node.rs') for k_ in ('to', 'tag')}
                    n1 = len(o.st.trace)
                    for k2, (s2, kind2, v2) in enumerate(gates.drive(I, o.st.fork(), sp[0])):
                        casts = [e for e in s2.trace[n1:] if e[0] == 'CAST']
                        rx = [e[1] for e in s2.trace[n1:] if e[0] == 'RX']
                        c2 = {'reply_task_completes': kind2 == 'ready'}
                        if rx[-1:] == ['value']:
                            okk = len(casts) == 1 and isinstance(casts[0][1], Opaque) and casts[0][1].ident == 'myself'
                            if okk:
                                try:
                                    rep = casts[0][2].fields[0].fields[0].fields[0].fields[0]
                                    okk = casts[0][2].variant == 'SendMessage' and casts[0][2].fields[0].fields[0].fields[0].variant == 'Reply'
                                    g_ = {k_: cl.field(prog, rep, 'CallReply', k_, 'out/node.rs') for k_ in ('to', 'tag', 'what')}
                                    c2['reply_echoes_tag_and_pid_of_the_request'] = g_['tag'] is f_['tag'] and g_['to'] is f_['to']
                                    c2['reply_carries_the_callees_answer'] = isinstance(g_['what'], Opaque) and g_['what'].ident == 'callee-reply'
                                except Exception:   # noqa
                                    okk = False
                            c2['exactly_one_reply_frame_through_this_session'] = okk
                            seen.add('reply_task')
                        else:
                            c2['no_reply_frame_without_an_answer'] = not casts
                            seen.add('reply_task_silent')
                        lp.record(ctx, '%s.reply_task%d' % (name, k2), s2, c2, 'C20.session', on_cex=cex)
            lp.record(ctx, name, o.st, claims, 'C20.session', sample={'message': mname, 'delivered': len(dl)} if dl else None, on_cex=cex)
    ctx.absorb(I)
    for w in ('cast', 'call', 'reply', 'reply_task', 'reply_task_silent'):
        ctx.note_witness('C20.session.' + w, w in seen)


_replayed = {}


def replay(which, args):
    import C20_replay
    k = (which, tuple(sorted(args.items())))
    if k not in _replayed:
        _replayed[k] = C20_replay.replay(which, args)
    return _replayed[k]


def run(ctx):
    prog, info = cl.load()
    ctx.bounds.update({'proxy': 'one serialized message handled from every state with 0..2 pending requests (tags symbolic, ordered, within the counter; each port open or closed; cleanup cursor absent or symbolic); '
                                'inductive: the representation invariant is re-established by every step',
                       'session': 'one node frame on an authenticated session (target advertised); the reply task of a Call with its receiver answering, failing or timing out',
                       'outside': 'the end-to-end composition of C20 over two nodes and a byte stream: per-sender order across two nodes, proxies stopping when the session closes (they are linked children of the session: C05); '
                                  'more than 16 pending requests per cleanup round, wrap-around of the 64-bit tag counter'})
    ctx.assumptions += ['BTreeMap contract (ordered map); ActorRef::cast to the session succeeds or fails arbitrarily; RpcReplyPort::is_closed is arbitrary but fixed per port within a step',
                        'the message_tag counter is below 2^63 (no wrap-around within the claim)']
    check_proxy(ctx, prog)
    check_session(ctx, prog)
    import C20_announce
    import C20_announce_replay
    C20_announce.check(ctx, prog)
    try:
        bad, n = C20_announce_replay.battery()
        ctx.translator_validated += n
        if bad:
            rec = {'name': 'announce.native_battery', 'group': 'C20.announce', 'solver_s': 0.0, 'status': 'cex'}
            ctx.obligations.append(rec)
            ctx.handle_cex(rec['name'], 'C20.announce.native', None, lambda _m: {'replayed': True, 'detail': 'real handle_supervisor_evt on lifecycle / group events: %s' % bad[:3], 'replay': {'which': 'announce_battery'}}, rec)
    except RuntimeError as e:
        ctx.inconclusive.append('announce native battery unavailable: %s' % str(e)[-300:])
    import C20_mirror
    import C20_mirror_replay
    C20_mirror.check(ctx, prog)
    # every frame handed to a session's write task reaches the transport once, in order (the task between the outbound queue and the byte stream)
    import C20_writer
    import C20_writer_replay
    C20_writer.check(ctx, prog)
    try:
        resw = [C20_writer_replay.run_native(300, 1000), C20_writer_replay.run_native(40, 10)]
        ctx.translator_validated += len(resw)
        ctx.extra['writer_native'] = resw
        badw = [r for r in resw if r['violated']]
        if badw:
            rec = {'name': 'writer.native_battery', 'group': 'C20.writer', 'solver_s': 0.0, 'status': 'cex'}
            ctx.obligations.append(rec)
            ctx.handle_cex(rec['name'], 'C20.writer.native', None, lambda _m: {'replayed': True, 'detail': 'real write task with a queued backlog: %s' % badw, 'replay': {'which': 'writer'}}, rec)
    except RuntimeError as e:
        ctx.inconclusive.append('writer native scenario unavailable: %s' % str(e)[-300:])
    try:
        bad, n = C20_mirror_replay.battery()
        ctx.translator_validated += n
        if bad:
            rec = {'name': 'mirror.native_battery', 'group': 'C20.mirror', 'solver_s': 0.0, 'status': 'cex'}
            ctx.obligations.append(rec)
            ctx.handle_cex(rec['name'], 'C20.mirror.native', None, lambda _m: {'replayed': True, 'detail': 'real handle_control on Spawn / Terminate / PgJoin / PgLeave: %s' % bad[:3], 'replay': {'which': 'mirror_battery'}}, rec)
    except RuntimeError as e:
        ctx.inconclusive.append('mirror native battery unavailable: %s' % str(e)[-300:])


def replay_file(path):
    import json
    import C20_replay
    d = json.load(open(path))
    if d['replay'].get('which') in ('announce', 'announce_battery', 'child_exit'):
        import C20_announce_replay
        bad, _n = C20_announce_replay.battery()
        if d['replay']['which'] == 'announce':
            rp = d['replay']['rp']
            bad += C20_announce_replay.evaluate(rp['advertised'], rp['remotable'], rp['event'])[0]
        print('native handle_supervisor_evt announce arms:', bad)
        return 1 if bad else 0
    if d['replay'].get('which') == 'writer':
        import C20_writer_replay
        return C20_writer_replay.replay_from_json(d)
    if d['replay'].get('which') in ('mirror', 'mirror_battery'):
        import C20_mirror_replay
        bad, _n = C20_mirror_replay.battery()
        if d['replay']['which'] == 'mirror':
            rp = d['replay']['rp']
            bad += C20_mirror_replay.evaluate(rp['have'], rp['kind'], rp['list'])[0]
        print('native handle_control mirror arms:', bad)
        return 1 if bad else 0
    r = C20_replay.replay(d['replay']['which'], d['replay'].get('args', {}))
    print(r['detail'])
    return 1 if r['replayed'] else 0
