"""C02 (wrapper slice) - the public send entry points hand the message to the mailbox entry point once, unchanged, and return its verdict unchanged.

`ActorCell::send_message`, `ActorRef::send_message`, `rpc::cast` and `ActorRef::cast` are executed on the real MIR with `ActorProperties::send_message` (the
type gate + admission protocol, decided by the other slices of C02) as the environment: it accepts, or refuses with any of its error values. Claims per path:
exactly one inner send, given the caller's own message; the wrapper returns Ok iff the inner send did, and an error carrying the same message otherwise."""
import re
import z3

import lifecycle as lc
import lifeprops as lp
import models_std
from exec import State, Outcome, Inconclusive
from values import *

FNS = {'ActorCell::send_message': 'cell', 'ActorRef::<TMessage>::send_message': 'ref', 'rpc::cast': 'free_cast', 'ActorRef::<TMessage>::cast': 'ref'}


def check(ctx, prog):
    seen = set()
    for fn, kind in FNS.items():
        body = prog.find_fn(fn)
        if body is None:
            body = prog.find_fn(fn.replace('::<TMessage>', ''))
        if body is None:
            raise Inconclusive(fn + ' not found')
        ctx.encoded(prog, body)
        I = lc.new_interp(prog)

        def inner(I, st, f, args, fr):
            st.emit('INNER_SEND', args[1])
            outs = []
            s_ok, s_back, s_type, s_closed = st, st.fork(), st.fork(), st.fork()
            s_ok.emit('INNER_RESULT', 'ok')
            s_back.emit('INNER_RESULT', 'send_err')
            s_type.emit('INNER_RESULT', 'invalid_type')
            s_closed.emit('INNER_RESULT', 'closed')
            outs.append(Outcome(s_ok, 'ret', models_std.ok(UNIT)))
            outs.append(Outcome(s_back, 'ret', models_std.err(Enum('MessagingErr', 'SendErr', 0, (args[1],)))))
            outs.append(Outcome(s_type, 'ret', models_std.err(Enum('MessagingErr', 'InvalidActorType', 2, ()))))
            outs.append(Outcome(s_closed, 'ret', models_std.err(Enum('MessagingErr', 'ChannelClosed', 1, ()))))
            return outs
        I.override.append((re.compile(r'(^|::)ActorProperties::send_message(::<.*>)?$'), inner))
        st = State()
        props = st.alloc(Opaque('ActorProperties', ident='the-props'))
        cell = Agg('ActorCell', (BoxV(props, 'Arc'),))
        msg = Opaque('msg', ident=77)
        if kind == 'cell':
            args = [Ref(st.alloc(cell), ()), msg]
        elif kind == 'free_cast':
            args = [Ref(st.alloc(cell), ()), msg]
        else:
            args = [Ref(st.alloc(Agg('ActorRef', (cell, Agg('PhantomData', ())))), ()), msg]
        outs = I.run_body(st, body, args)
        ctx.absorb(I)
        ctx.paths += len(outs)
        for k, o in enumerate(outs):
            name = 'wrappers.%s.path%d' % (fn.replace('::<TMessage>', ''), k)
            cex = lambda m: replay()
            if o.kind != 'ret':
                lp.record(ctx, name, o.st, {'no_panic': False}, 'C02.wrappers', on_cex=cex)
                continue
            sends = [e for e in o.st.trace if e[0] == 'INNER_SEND']
            res = [e[1] for e in o.st.trace if e[0] == 'INNER_RESULT']
            v = o.val
            okk = isinstance(v, Enum) and v.variant == 'Ok'
            same_back = isinstance(v, Enum) and v.variant == 'Err' and isinstance(v.fields[0], Enum) and v.fields[0].variant == 'SendErr' and v.fields[0].fields[0] is msg
            claims = {'exactly_one_inner_send_with_the_callers_message': len(sends) == 1 and sends[0][1] is msg}
            if res:
                r = res[0]
                claims['the_verdict_of_the_mailbox_is_returned_unchanged'] = (okk if r == 'ok' else (same_back if r == 'send_err' else (isinstance(v, Enum) and v.variant == 'Err' and isinstance(v.fields[0], Enum)
                                                                              and v.fields[0].variant == {'invalid_type': 'InvalidActorType', 'closed': 'ChannelClosed'}[r])))
                seen.add(r)
            lp.record(ctx, name, o.st, claims, 'C02.wrappers', sample={'function': fn, 'inner_result': res[:1]}, on_cex=cex)
    ctx.note_witness('C02.wrappers.accept_and_refuse_explored', {'ok', 'send_err'} <= seen)
    ctx.bounds['wrappers'] = 'ActorCell::send_message, ActorRef::send_message, rpc::cast, ActorRef::cast with ActorProperties::send_message as the environment (Ok / SendErr(same message) / InvalidActorType / ChannelClosed); DerivedActorRef (converter closures) is outside'


def replay():
    import C02_dequeue_replay
    return C02_dequeue_replay.replay()


def check_drain(ctx, prog):
    """C07: `ActorCell::drain` is `ActorProperties::drain` - called once, verdict unchanged"""
    fn = 'ActorCell::drain'
    body = prog.find_fn(fn)
    if body is None:
        raise Inconclusive(fn + ' not found')
    ctx.encoded(prog, body)
    I = lc.new_interp(prog)

    def inner(I, st, f, args, fr):
        st.emit('INNER_DRAIN')
        s2 = st.fork()
        st.emit('INNER_RESULT', 'ok')
        s2.emit('INNER_RESULT', 'refused')
        return [Outcome(st, 'ret', models_std.ok(UNIT)), Outcome(s2, 'ret', models_std.err(Enum('MessagingErr', 'ChannelClosed', 1, ())))]
    I.override.append((re.compile(r'(^|::)ActorProperties::drain$'), inner))
    st = State()
    props = st.alloc(Opaque('ActorProperties', ident='the-props'))
    outs = I.run_body(st, body, [Ref(st.alloc(Agg('ActorCell', (BoxV(props, 'Arc'),))), ())])
    ctx.absorb(I)
    ctx.paths += len(outs)
    for k, o in enumerate(outs):
        calls = [e for e in o.st.trace if e[0] == 'INNER_DRAIN']
        res = [e[1] for e in o.st.trace if e[0] == 'INNER_RESULT']
        okk = o.kind == 'ret' and isinstance(o.val, Enum) and o.val.variant == 'Ok'
        claims = {'exactly_one_drain_of_the_mailbox': o.kind == 'ret' and len(calls) == 1, 'the_verdict_is_returned_unchanged': o.kind == 'ret' and bool(res) and okk == (res[0] == 'ok')}
        lp.record(ctx, 'wrappers.ActorCell__drain.path%d' % k, o.st, claims, 'C07.wrappers', on_cex=lambda m: replay())
