"""native replay for C06: real exit path vs. real waiters under the turn-stile"""
import random
import native

HOOKED = ('status.fetch_update', 'message_admission.fetch_or', 'message_admission.load', 'message_admission.cas', 'message.send', 'status.load', 'status.fetch_max', 'wait_handler.notified', 'wait_handler.notify_waiters', 'wait_handler.notify_one')


def run_native(n_waiters, second, status0, seq):
    out, lines, rc, err = native.run('shutdown', waiters=n_waiters, second=1 if second else 0, status0=status0, schedule=seq if seq else [99], timeout=60)
    if rc != 0:
        raise RuntimeError('native shutdown replay failed: ' + err[-400:])
    obs = {'waiters': {}}
    for k, v in out.items():
        if k.startswith('waiter'):
            w = int(k[6:])
            if v == 'STUCK':
                obs['waiters'][w] = 'STUCK'
            else:
                obs['waiters'][w] = {x.split('=')[0]: int(x.split('=')[1]) for x in v.split(';')}
        elif k in ('final_status', 'sup_events', 'child_signalled'):
            obs[k] = int(v)
        elif k == 'status_samples':
            obs[k] = [int(x) for x in v.split(',') if x]
    obs['log'] = out.get('log', '')
    return obs


def concrete_oracle(obs):
    bad = []
    if not obs['waiters'] and 'sup_events' not in obs:
        # start-vs-drain mode: drain's Draining must survive the later Running write
        return ['status_never_decreases'] if obs.get('final_status') != 4 else []
    for w, o in obs['waiters'].items():
        if o == 'STUCK':
            bad.append('w%d.never_parked_forever' % w)
            continue
        if not (o['status'] == 6 and o['named'] == 0 and o['in_group'] == 0 and o['sup_told'] == 1 and o['child_killed'] == 1 and o['has_sup'] == 0):
            bad.append('w%d.returns_only_after_full_stop' % w)
    if obs.get('final_status') != 6:
        bad.append('final_status_stopped')
    ss = obs.get('status_samples', []) + [obs.get('final_status', 0)]
    if any(b < a for a, b in zip(ss, ss[1:])):
        bad.append('status_never_decreases')
    if obs.get('sup_events', 0) != 1:
        bad.append('once.supervisor_notified')
    return bad


def replay(n_waiters, second, status0, sched, expected_bad, meta, tries=30):
    # only operations that carry a hook point in the real code can be ordered by the turn-stile
    # a thread that closes the admission word is inside ActorProperties::drain: the hook point in front of *its* status write is `status.fetch_update`
    drainers = {t for (_, t, _, lbl, _) in sched if lbl == 'message_admission.fetch_or'}

    def hook_label(lbl, t=None):
        if t in drainers and lbl not in HOOKED and lbl.startswith('status.') and lbl.split('.', 1)[1] in ('swap', 'store', 'fetch_or', 'fetch_and', 'fetch_min', 'fetch_max', 'compare_exchange'):
            return 'status.fetch_update'
        return hook_label0(lbl)

    def hook_label0(lbl):
        # the hook point in front of the status write in `ActorProperties::set_status` is named after the operation the pinned source uses
        # (`status.fetch_max`); a changed tree may perform another atomic write at that place
        if lbl not in HOOKED and lbl.startswith('status.') and lbl.split('.', 1)[1] in ('swap', 'store', 'fetch_or', 'fetch_and', 'fetch_min', 'compare_exchange'):
            return 'status.fetch_max'
        return lbl
    seq = ['%d:%s' % (t, hook_label(lbl, t)) for (_, t, _, lbl, _) in sched if hook_label(lbl, t) in HOOKED]
    obs = run_native(n_waiters, second, status0, seq)
    bad = concrete_oracle(obs)
    used = seq
    if not bad:
        rnd = random.Random(7)
        for k in range(tries):
            s2 = list(seq)
            rnd.shuffle(s2)
            obs = run_native(n_waiters, second, status0, s2)
            bad = concrete_oracle(obs)
            if bad:
                used = s2
                break
    return {'replayed': bool(bad), 'detail': 'native run: violated %s (solver said %s); observations %s' % (bad, expected_bad, {k: v for k, v in obs.items() if k != 'log'}),
            'replay': {'scenario': 'shutdown', 'waiters': n_waiters, 'second': second, 'status0': status0, 'schedule': used, 'violated': bad,
                       'model_schedule': [(t, lbl) for (_, t, _, lbl, _) in sched]}}


def replay_from_json(d):
    rp = d['replay']
    obs = run_native(rp['waiters'], rp['second'], rp['status0'], rp['schedule'])
    bad = concrete_oracle(obs)
    print('native run:', obs)
    print('violated:', bad)
    return 1 if bad else 0
