"""C13 - Factory: every job meets exactly one fate (single-step conservation, inductive over the factory's bookkeeping operations).

What a history of the factory does to a job is a sequence of these operations of one single-threaded actor; each is run from MIR on every
concrete-shape pre-state and must conserve jobs:

  worker record (real code):   enqueue_job, worker_complete, replace_worker  (with dispatch_job, get_next_non_expired_job, TTL expiry symbolic)
  factory state (real code):   dispatch, maybe_enqueue, try_route_next_active_job  (router and queue are type parameters: their trait contracts are
                               the environment - FIFO queue; route_message hands the job to a worker or returns that same job)

  conservation:  jobs before (+ the incoming one) == jobs kept  +  handed to a worker  +  discarded (once each, with the applicable reason)
                 +  lost in flight with a dead worker (at most one per death);  nothing appears twice, nothing is handled and also discarded.
"""
import itertools
import re
import z3

import world
import models_std
import lifeprops as lp
import C15_limits as lim
import C14_books as books
from exec import State, Outcome, Inconclusive, Unmodelled
from values import *

K = (5, 6)


def new_interp(prog, expiry=True):
    I = books.new_interp(prog)
    if expiry:
        # TTL: every job is expired or not, fixed per job (symbolic)
        I.override[:] = [(rx, fn) for rx, fn in I.override if 'is_expired' not in rx.pattern]

        def is_expired(I, st, f, args, fr):
            jid = lim.job_id(I, st, args[0])
            key = ('expired', jid)
            if key not in st.ghost:
                st.ghost[key] = z3.Bool('expired_%s' % (jid,))
            st.emit('EXPIRY_READ', jid)
            return I.ret(st, st.ghost[key])
        I.override.append((re.compile(r'(^|::)Job::<.*>::is_expired$|(^|::)Job::is_expired$'), is_expired))
    return I


def jobs_of(I, st, coll):
    return [lim.job_id(I, st, j) for j in coll.fields]


def fates(tr):
    handed = [e[1] for e in tr if e[0] == 'CAST' and e[2]]
    discarded = [(e[1], e[2]) for e in tr if e[0] == 'DISCARD']
    rejected = [e[2] for e in tr if e[0] == 'JOB' and e[1] == 'reject']
    return handed, discarded, rejected


# ------------------------------------------------------------------ worker record
def check_worker(ctx, prog):
    d = prog.crate.struct('WorkerProperties')
    qi, ci = d['fields'].index('message_queue'), d['fields'].index('curr_jobs')
    fns = {'enqueue': 'WorkerProperties::<TKey, TMsg>::enqueue_job', 'complete': 'WorkerProperties::<TKey, TMsg>::worker_complete', 'replace': 'WorkerProperties::<TKey, TMsg>::replace_worker'}
    bodies = {}
    for op, fn in fns.items():
        b = prog.find_fn(fn)
        if b is None:
            raise Inconclusive(fn + ' not found')
        bodies[op] = b
        ctx.encoded(prog, b)
    seen = set()
    modes = [None, ('Oldest', 1), ('Newest', 1)]
    for qn in range(0, 3):
        for curr in ((), (K[0],)):
            for op, k, mode in [('enqueue', K[0], m) for m in modes] + [('complete', K[0], None), ('complete', K[1], None), ('replace', None, None)]:
                queue = [K[i % 2] for i in range(qn)]
                I = new_interp(prog)
                st = State()
                w = books.mk_worker(prog, I, st, queue, curr)
                if mode is not None:
                    f = list(w.fields)
                    f[d['fields'].index('discard_settings')] = Enum('WorkerDiscardSettings', 'Static', 1, (I.mk_int(mode[1], 'usize'), Enum('DiscardMode', mode[0], 0 if mode[0] == 'Oldest' else 1, ())))
                    f[d['fields'].index('discard_handler')] = models_std.some(BoxV(st.alloc(Opaque('handler')), 'Arc'))
                    w = Agg('WorkerProperties', f)
                else:
                    f = list(w.fields)
                    f[d['fields'].index('discard_handler')] = models_std.some(BoxV(st.alloc(Opaque('handler')), 'Arc'))
                    w = Agg('WorkerProperties', f)
                wc = st.alloc(w)
                before = ['q%d' % i for i in range(qn)]
                if op == 'enqueue':
                    args = [Ref(wc, (), True), books.mk_job(prog, k, 'new')]
                    incoming = ['new']
                elif op == 'complete':
                    args = [Ref(wc, (), True), books.key(k)]
                    incoming = []
                else:
                    args = [Ref(wc, (), True), Opaque('new-worker-actor-ref'), Opaque('JoinHandle')]
                    incoming = []
                outs = I.run_body(st, bodies[op], args)
                ctx.absorb(I)
                ctx.paths += len(outs)
                for n, o in enumerate(outs):
                    name = 'worker.%s%s.%s.q%d.c%d.path%d' % (op, '' if k is None else k, 'none' if mode is None else mode[0], qn, len(curr), n)
                    rp = {'queue': queue, 'curr': list(curr), 'op': op if k is None else '%s:%d' % (op, k), 'mode': 'None' if mode is None else mode[0], 'limit': 0 if mode is None else mode[1]}
                    cex = (lambda rp=rp, o=o: (lambda m: replay_worker(rp, o, m)))()
                    if o.kind != 'ret':
                        lp.record(ctx, name, o.st, {'no_panic': False}, 'C13.worker', on_cex=cex)
                        continue
                    wv = I.read(o.st, wc, ())
                    kept = jobs_of(I, o.st, wv.fields[qi])
                    handed, discarded, rejected = fates(o.st.trace)
                    dj = [x[1] for x in discarded]
                    claims = {'every_job_has_exactly_one_fate': sorted(kept + handed + dj) == sorted(before + incoming),
                              'no_job_discarded_twice_or_discarded_and_handed': len(set(dj)) == len(dj) and not (set(dj) & set(handed)) and not (set(dj) & set(kept)),
                              'at_most_one_job_handed_over_per_step': len(handed) <= 1}
                    # TTL discards only for expired jobs, load-shedding only under a limit
                    for (reason, jid) in discarded:
                        if reason == 'TtlExpired':
                            ctx.prove('%s.ttl_discard_only_for_expired.%s' % (name, jid), o.st.pc, o.st.ghost.get(('expired', jid), z3.BoolVal(False)), group='C13.worker.ttl_discard_only_for_expired', key='C13.worker', on_cex=cex)
                            seen.add('ttl')
                        elif reason == 'Loadshed':
                            claims['loadshed_only_with_a_limit'] = mode is not None
                            seen.add('loadshed')
                        else:
                            claims['known_discard_reason'] = False
                    for jid in handed:
                        ctx.prove('%s.expired_job_is_not_handed_over.%s' % (name, jid), o.st.pc, z3.Not(o.st.ghost.get(('expired', jid), z3.BoolVal(False))) if jid != 'new' or ('expired', jid) in o.st.ghost else z3.BoolVal(True),
                                  group='C13.worker.expired_job_is_not_handed_over', key='C13.worker', on_cex=cex)
                    running_before, running_after = len(curr), len(wv.fields[ci].fields)
                    if op == 'replace':
                        claims['at_most_one_job_lost_with_the_dead_worker'] = running_before <= 1
                        # a replacement is put to work: jobs still waiting in the slot's own queue afterwards mean that a hand-over to the new worker was tried
                        # and refused - also when the dead worker had nothing in flight (a job parked there after a refused hand-over)
                        attempts = [e for e in o.st.trace if e[0] == 'CAST']
                        claims['a_replacement_with_waiting_jobs_is_offered_the_next_one'] = (not kept) or bool(attempts)
                        seen.add('replace')
                    if op == 'complete' and k in curr:
                        seen.add('complete')
                    claims['one_job_in_flight_at_most'] = running_after <= 1
                    if handed:
                        seen.add('handed')
                    lp.record(ctx, name, o.st, claims, 'C13.worker', sample={'op': rp['op'], 'queue_before': before, 'in_flight_before': list(curr), 'kept': kept, 'handed': handed, 'discarded': discarded} if n == 0 and qn == 2 else None, on_cex=cex)
    for w_ in ('ttl', 'loadshed', 'replace', 'complete', 'handed'):
        ctx.note_witness('C13.worker.' + w_, w_ in seen)


# ------------------------------------------------------------------ factory state
def factory_interp(prog):
    I = new_interp(prog)
    ROUTER = r'^<TRouter as (factory::)?(routing::)?Router<.*>>::'
    QUEUE = r'^<TQueue as (factory::)?(queues::)?Queue<.*>>::'

    @I.model(ROUTER + r'route_message$', 'Router::route_message (contract: Handled = the job was enqueued at a worker; RateLimited / Backlog return that same job; with a worker hint never Backlog)')
    def m_route(I, st, f, args, fr):
        job = args[1]
        jid = lim.job_id(I, st, job)
        hint = args[3]
        outs = []
        choices = ['handled', 'ratelimited'] + (['backlog'] if isinstance(hint, Enum) and hint.variant == 'None' else [])
        for i, ch in enumerate(choices):
            s = st.fork() if i < len(choices) - 1 else st
            s.emit('ROUTE_ANSWER', ch[0])
            if ch == 'handled':
                s.emit('ROUTED', jid)
                outs.append(Outcome(s, 'ret', models_std.ok(Enum('RouteResult', 'Handled', 0, ()))))
            elif ch == 'ratelimited':
                outs.append(Outcome(s, 'ret', models_std.ok(Enum('RouteResult', 'RateLimited', 2, (job,)))))
            else:
                outs.append(Outcome(s, 'ret', models_std.ok(Enum('RouteResult', 'Backlog', 1, (job,)))))
        return outs

    @I.model(ROUTER + r'choose_target_worker$', 'Router::choose_target_worker (any answer)')
    def m_choose(I, st, f, args, fr):
        s2 = st.fork()
        st.emit('CHOOSE', 1)
        s2.emit('CHOOSE', 0)
        return [Outcome(st, 'ret', models_std.some(I.mk_int(0, 'usize'))), Outcome(s2, 'ret', models_std.NONE)]

    @I.model(ROUTER + r'on_worker_availability_change$', 'Router::on_worker_availability_change')
    def m_avail(I, st, f, args, fr):
        return I.ret(st, UNIT)

    def q(I, st, r):
        return I.read(st, r.cell, r.path)

    def m_stop(I, st, f, args, fr):
        r = args[0]
        held = None
        if isinstance(r, Ref):
            for k in range(len(r.path), -1, -1):
                v = I.read(st, r.cell, r.path[:k])
                if isinstance(v, Enum) and v.ty == 'Option' and v.variant == 'Some':
                    v = v.fields[0]
                if isinstance(v, Agg) and v.ty == 'WorkerProperties':
                    dw = prog.crate.struct('WorkerProperties')
                    held = (jobs_of(I, st, v.fields[dw['fields'].index('message_queue')]), len(v.fields[dw['fields'].index('curr_jobs')].fields))
                    break
        st.emit('STOP_WORKER', held)
        I.stats['models_used'].add('ActorCell::stop of a worker actor (recorded together with what its record still holds)')
        return I.ret(st, UNIT)
    I.override.append((re.compile(r'(^|::)ActorRef::<.*>::stop$|(^|::)ActorCell::stop$'), m_stop))

    def m_get_id(I, st, f, args, fr):
        return I.ret(st, Opaque('ActorId', ident='worker-actor-id'))
    I.override.append((re.compile(r'(^|::)ActorRef::<.*>::get_id$|(^|::)ActorCell::get_id$'), m_get_id))

    @I.model(r'^<(\w+::)*ActorRef<.*> as Deref>::deref$', 'ActorRef deref')
    def m_deref(I, st, f, args, fr):
        return I.ret(st, args[0])

    @I.model(QUEUE + r'len$', 'Queue::len (FIFO contract)')
    def m_qlen(I, st, f, args, fr):
        return I.ret(st, I.mk_int(len(models_std.deref_val(I, st, args[0]).fields), 'usize'))

    @I.model(QUEUE + r'peek$', 'Queue::peek')
    def m_qpeek(I, st, f, args, fr):
        r = args[0]
        v = q(I, st, r)
        return I.ret(st, models_std.some(Ref(r.cell, r.path + (0,))) if v.fields else models_std.NONE)

    @I.model(QUEUE + r'(pop_front|discard_oldest)$', 'Queue::pop_front / discard_oldest (FIFO: the head)')
    def m_qpop(I, st, f, args, fr):
        r = args[0]
        v = q(I, st, r)
        if not v.fields:
            return I.ret(st, models_std.NONE)
        I.write(st, r.cell, r.path, Agg(v.ty, v.fields[1:]))
        return I.ret(st, models_std.some(v.fields[0]))

    @I.model(QUEUE + r'push_back$', 'Queue::push_back')
    def m_qpush(I, st, f, args, fr):
        r = args[0]
        v = q(I, st, r)
        I.write(st, r.cell, r.path, Agg(v.ty, v.fields + (args[1],)))
        return I.ret(st, UNIT)

    @I.model(QUEUE + r'is_job_discardable$', 'Queue::is_job_discardable (any)')
    def m_qdisc(I, st, f, args, fr):
        b = I.fresh_bool('discardable')
        st.ghost['discardable'] = b
        return I.ret(st, b)
    return I


def mk_factory(prog, I, st, queue_ids, mode, drain):
    d = prog.crate.struct('FactoryState')
    need = {'queue', 'router', 'pool', 'discard_settings', 'discard_handler', 'drain_state', 'stats', 'factory_name', 'pool_size'}
    if not d or not need <= set(d['fields']):
        raise Inconclusive('FactoryState fields changed')
    f = {n: Opaque('factory.' + n) for n in d['fields']}
    f['factory_name'] = Str('factory')
    f['pool_size'] = I.mk_int(2, 'usize')
    f['pool'] = Agg('HashMap', ())
    f['stats'] = models_std.NONE
    f['router'] = Opaque('router', ident='router')
    f['queue'] = Agg('VecDeque', [books.mk_job(prog, K[i % 2], j) for i, j in enumerate(queue_ids)])
    f['discard_handler'] = models_std.some(BoxV(st.alloc(Opaque('handler')), 'Arc'))
    limit = I.fresh_int('limit', 'usize', st)
    st.assume(z3.ULE(limit.t, 8))
    if mode is None:
        f['discard_settings'] = Enum('DiscardSettings', 'None', 0, ())
    else:
        f['discard_settings'] = Enum('DiscardSettings', 'Static', 1, (limit, Enum('DiscardMode', mode, 0 if mode == 'Oldest' else 1, ())))
    f['drain_state'] = Enum('DrainState', drain, {'NotDraining': 0, 'Draining': 1, 'Drained': 2}[drain], ())
    return Agg('FactoryState', [f[n] for n in d['fields']]), limit


def check_factory(ctx, prog):
    d = prog.crate.struct('FactoryState')
    qi = d['fields'].index('queue')
    fns = {'dispatch': 'FactoryState::<TKey, TMsg, TWorker, TWorkerStart, TRouter, TQueue>::dispatch',
           'maybe_enqueue': 'FactoryState::<TKey, TMsg, TWorker, TWorkerStart, TRouter, TQueue>::maybe_enqueue',
           'route_next': 'FactoryState::<TKey, TMsg, TWorker, TWorkerStart, TRouter, TQueue>::try_route_next_active_job'}
    bodies = {}
    for op, fn in fns.items():
        b = prog.find_fn(fn)
        if b is None:
            raise Inconclusive(fn + ' not found')
        bodies[op] = b
        ctx.encoded(prog, b)
    seen = set()
    for op in ('dispatch', 'maybe_enqueue', 'route_next'):
        for qn in range(0, 4):
            for mode in (None, 'Oldest', 'Newest'):
                for drain in (('NotDraining', 'Draining') if op == 'dispatch' else ('NotDraining',)):
                    for hint in ((None, 0) if op == 'route_next' else (None,)):
                        I = factory_interp(prog)
                        st = State()
                        before = ['q%d' % i for i in range(qn)]
                        fv, limit = mk_factory(prog, I, st, before, mode, drain)
                        # inductive pre-state: the backlog respects the limit
                        if mode is not None:
                            st.assume(z3.UGE(limit.t, qn))
                        fc = st.alloc(fv)
                        if op == 'route_next':
                            args = [Ref(fc, (), True), models_std.NONE if hint is None else models_std.some(I.mk_int(hint, 'usize'))]
                            incoming = []
                        else:
                            args = [Ref(fc, (), True), books.mk_job(prog, K[0], 'new')]
                            incoming = ['new']
                        outs = I.run_body(st, bodies[op], args)
                        ctx.absorb(I)
                        ctx.paths += len(outs)
                        for n, o in enumerate(outs):
                            name = 'factory.%s.%s.%s.q%d.hint%s.path%d' % (op, mode, drain, qn, hint, n)
                            cex = (lambda op=op, mode=mode, qn=qn, drain=drain, hint=hint, o=o, limit=limit: (lambda m: replay_factory(op, mode, qn, drain, hint, o, limit, m)))()
                            routed = [e[1] for e in o.st.trace if e[0] == 'ROUTED']
                            if o.kind != 'ret' or not (isinstance(o.val, Enum) and o.val.variant == 'Ok' or o.val is UNIT or isinstance(o.val, Agg)):
                                if o.kind != 'ret':
                                    lp.record(ctx, name, o.st, {'no_panic': False}, 'C13.factory', on_cex=cex)
                                    continue
                            fa = I.read(o.st, fc, ())
                            kept = jobs_of(I, o.st, fa.fields[qi])
                            handed, discarded, rejected = fates(o.st.trace)
                            dj = [x[1] for x in discarded]
                            claims = {'every_job_has_exactly_one_fate': sorted(kept + routed + dj) == sorted(before + incoming),
                                      'no_job_discarded_twice_or_discarded_and_routed': len(set(dj)) == len(dj) and not (set(dj) & set(routed)) and not (set(dj) & set(kept)),
                                      'backlog_keeps_its_order': [x for x in kept if x in before] == [x for x in before if x in kept]}
                            if op != 'maybe_enqueue':
                                # a refused submission is answered through the acceptance port: every job discarded here is also rejected, except load-shed backlog victims (already accepted)
                                claims['refused_jobs_are_rejected_once'] = len(set(rejected)) == len(rejected) and set(rejected) <= set(dj)
                            for (reason, jid) in discarded:
                                if reason == 'TtlExpired':
                                    ctx.prove('%s.ttl_discard_only_for_expired.%s' % (name, jid), o.st.pc, o.st.ghost.get(('expired', jid), z3.BoolVal(False)), group='C13.factory.ttl_discard_only_for_expired', key='C13.factory', on_cex=cex)
                                    seen.add('ttl')
                                elif reason == 'Shutdown':
                                    claims['shutdown_discard_only_while_draining'] = drain != 'NotDraining'
                                    seen.add('shutdown')
                                elif reason == 'Loadshed':
                                    claims['loadshed_only_with_a_limit'] = mode is not None
                                    seen.add('loadshed')
                                elif reason == 'RateLimited':
                                    seen.add('ratelimited')
                                else:
                                    claims['known_discard_reason'] = False
                            if op == 'dispatch' and drain != 'NotDraining':
                                claims['draining_factory_refuses_new_jobs'] = not routed and 'new' not in kept
                            if routed:
                                seen.add('routed')
                                for jid in routed:
                                    ex = o.st.ghost.get(('expired', jid))
                                    if ex is not None:
                                        ctx.prove('%s.expired_job_is_not_routed.%s' % (name, jid), o.st.pc, z3.Not(ex), group='C13.factory.expired_job_is_not_routed', key='C13.factory', on_cex=cex)
                            if 'new' in kept:
                                seen.add('backlogged')
                            if mode is not None:
                                ctx.prove(name + '.backlog_within_limit', o.st.pc, z3.Or(z3.UGE(limit.t, len(kept)), z3.Not(o.st.ghost.get('discardable', z3.BoolVal(True)))), group='C13.factory.backlog_within_limit',
                                          key='C13.factory', on_cex=cex)
                            lp.record(ctx, name, o.st, claims, 'C13.factory', sample={'op': op, 'mode': mode, 'drain': drain, 'queue_before': before, 'kept': kept, 'routed': routed, 'discarded': discarded} if n == 0 and qn == 2 else None,
                                      on_cex=cex)
    for w_ in ('ttl', 'shutdown', 'loadshed', 'ratelimited', 'routed', 'backlogged'):
        ctx.note_witness('C13.factory.' + w_, w_ in seen)


def check_finished(ctx, prog):
    """FactoryState::worker_finished_job: the completed job leaves, the next one is handed over, and a draining worker is retired only when it holds nothing"""
    fn = 'FactoryState::<TKey, TMsg, TWorker, TWorkerStart, TRouter, TQueue>::worker_finished_job'
    body = prog.find_fn(fn)
    if body is None:
        raise Inconclusive(fn + ' not found')
    ctx.encoded(prog, body)
    d = prog.crate.struct('FactoryState')
    dw = prog.crate.struct('WorkerProperties')
    if 'is_draining' not in dw['fields']:
        raise Inconclusive('WorkerProperties.is_draining not found')
    seen = set()
    for wq in range(0, 3):
        for draining in (False, True):
            for fq in (0, 1):
                I = factory_interp(prog)
                st = State()
                fv, limit = mk_factory(prog, I, st, ['f%d' % i for i in range(fq)], None, 'NotDraining')
                w = books.mk_worker(prog, I, st, [K[i % 2] for i in range(wq)], (K[0],))
                wf = list(w.fields)
                wf[dw['fields'].index('is_draining')] = z3.BoolVal(draining)
                wf[dw['fields'].index('discard_handler')] = models_std.some(BoxV(st.alloc(Opaque('handler')), 'Arc'))
                wf[dw['fields'].index('actor')] = Opaque('ActorRef', ident='worker-actor')
                w = Agg('WorkerProperties', wf)
                ff = list(fv.fields)
                ff[d['fields'].index('pool')] = Agg('HashMap', (Agg('()', (I.mk_int(0, 'usize'), w)),))
                ff[d['fields'].index('worker_by_actor')] = Agg('HashMap', (Agg('()', (Opaque('ActorId', ident='worker-actor-id'), I.mk_int(0, 'usize'))),))
                fv = Agg('FactoryState', ff)
                fc = st.alloc(fv)
                outs = I.run_body(st, body, [Ref(fc, (), True), I.mk_int(0, 'usize'), books.key(K[0])])
                ctx.absorb(I)
                ctx.paths += len(outs)
                for n, o in enumerate(outs):
                    name = 'factory.finished.wq%d.%s.fq%d.path%d' % (wq, 'draining' if draining else 'active', fq, n)
                    cex = (lambda wq=wq, draining=draining, fq=fq, o=o: (lambda m: replay_finished(wq, draining, fq, o, m)))()
                    if o.kind != 'ret':
                        lp.record(ctx, name, o.st, {'no_panic': False}, 'C13.finished', on_cex=cex)
                        continue
                    fa = I.read(o.st, fc, ())
                    pool = fa.fields[d['fields'].index('pool')]
                    in_pool = [e.fields[1] for e in pool.fields]
                    handed, discarded, _rej = fates(o.st.trace)
                    routed = [e[1] for e in o.st.trace if e[0] == 'ROUTED']
                    stops = [e for e in o.st.trace if e[0] == 'STOP_WORKER']
                    kept_f = jobs_of(I, o.st, fa.fields[d['fields'].index('queue')])
                    kept_w = jobs_of(I, o.st, in_pool[0].fields[dw['fields'].index('message_queue')]) if in_pool else []
                    before = ['q%d' % i for i in range(wq)] + ['f%d' % i for i in range(fq)]
                    dj = [x[1] for x in discarded]
                    claims = {'retired_iff_removed_from_the_pool': bool(stops) == (not in_pool)}
                    if not in_pool:
                        # the record and its actor are gone: whatever it still held, and whatever was handed to it in this very step, is lost
                        held = stops[0][1] if stops and stops[0][1] is not None else None
                        claims['a_retired_worker_holds_no_job'] = held is not None and held[0] == [] and held[1] == 0 and not handed
                        claims['only_a_draining_worker_is_retired'] = draining
                        seen.add('retired')
                    lost = [] if in_pool else (kept_w + handed)
                    claims['every_job_has_exactly_one_fate'] = sorted(kept_f + kept_w + handed + routed + dj) == sorted(before)
                    if handed:
                        seen.add('next_job_handed')
                    if draining and in_pool:
                        seen.add('draining_worker_kept_while_busy')
                    lp.record(ctx, name, o.st, claims, 'C13.finished', sample={'worker_queue': wq, 'draining': draining, 'factory_queue': fq, 'handed': handed, 'routed': routed, 'retired': not in_pool} if n == 0 else None, on_cex=cex)
    for w_ in ('retired', 'next_job_handed', 'draining_worker_kept_while_busy'):
        ctx.note_witness('C13.finished.' + w_, w_ in seen)


_replayed = {}


def replay_finished(wq, draining, fq, o, model):
    import C13_replay
    k = ('finished', wq, draining, fq)
    if k not in _replayed:
        _replayed[k] = C13_replay.replay_finished(wq, draining, fq)
    return _replayed[k]


def expired_flags(model, ids):
    out = []
    for jid in ids:
        v = 0
        if model is not None:
            for d_ in model.decls():
                if d_.name() == 'expired_%s' % jid:
                    v = 1 if z3.is_true(model[d_]) else 0
        out.append(v)
    return out


def replay_worker(rp, o, model):
    import C13_replay
    casts = [bool(e[2]) for e in o.st.trace if e[0] == 'CAST']
    dead = any(not c for c in casts)
    ex = expired_flags(model, ['q%d' % i for i in range(len(rp['queue']))])
    k = ('worker', tuple(rp['queue']), tuple(rp['curr']), rp['op'], rp['mode'], rp['limit'], dead, tuple(ex))
    if k not in _replayed:
        _replayed[k] = C13_replay.replay_worker(rp, dead, ex)
    return _replayed[k]


def replay_factory(op, mode, qn, drain, hint, o, limit, model):
    import C13_replay
    from framework import mval
    script = ''.join(e[1] for e in o.st.trace if e[0] == 'ROUTE_ANSWER')
    choose = [e[1] for e in o.st.trace if e[0] == 'CHOOSE']
    ex = expired_flags(model, ['q%d' % i for i in range(qn)])
    inc = expired_flags(model, ['new'])[0]
    lim_v = mval(model, limit.t) if model is not None else 0
    args = {'op': op if not (op == 'route_next' and hint is not None) else 'route_next_hint', 'mode': mode or 'None', 'limit': lim_v or 0, 'queue': list(range(qn)), 'expired': ex, 'incoming_expired': inc,
            'draining': 1 if drain != 'NotDraining' else 0, 'script': script or 'h', 'choose': choose}
    k = ('factory', tuple(sorted((a, str(b)) for a, b in args.items())))
    if k not in _replayed:
        _replayed[k] = C13_replay.replay_factory(args)
    return _replayed[k]


def run(ctx):
    prog, info = world.load()
    ctx.bounds.update({'worker_record': 'queue of 0..2 jobs over two keys, zero or one job in flight, discard settings none / Oldest / Newest with limit 1, TTL expiry symbolic per job, hand-over succeeding or failing',
                       'factory_state': 'backlog of 0..3 jobs, symbolic limit <= 8 with the backlog within it, three discard modes, draining or not, with / without a worker hint; router and queue by contract',
                       'histories': 'arbitrary length by induction: every operation conserves jobs from every pre-state of these shapes',
                       'outside': 'the composition across the factory actor and the worker actors on a runtime (a Finished message of a dead incarnation arriving after its replacement was installed, '
                                  'messages lost inside a worker mailbox when it dies); priority queues (FIFO contract only); resize / drain orchestration'})
    ctx.assumptions += ['Queue contract: FIFO; pop_front / discard_oldest remove the head; peek shows it', 'Router contract: route_message either enqueues the job at a worker (Handled) or returns that same job '
                        '(RateLimited, Backlog; never Backlog when given a worker hint)', 'the discard handler and the acceptance port (Job::accept / reject) are recorded as events']
    check_worker(ctx, prog)
    check_factory(ctx, prog)
    check_finished(ctx, prog)
    # the death of a worker as the factory handles it (the supervision arms of the factory actor): nothing queued behind the dead worker's job is lost with the
    # slot - the same exploration as C15's pool slice, whose conservation claims belong to this property
    import C15_pool
    C15_pool.check_supervision(ctx, prog)
    # what a stopping factory does with the jobs still waiting (factory queue and the workers' own queues)
    import C13_stop
    import C13_stop_replay
    C13_stop.check(ctx, prog)
    try:
        bad, n = C13_stop_replay.battery()
        ctx.translator_validated += n
        if bad:
            rec = {'name': 'stop.native_battery', 'group': 'C13.stop', 'solver_s': 0.0, 'status': 'cex'}
            ctx.obligations.append(rec)
            ctx.handle_cex(rec['name'], 'C13.stop.native', None, lambda _m: {'replayed': True, 'detail': 'real Factory::post_stop: %s' % bad[:3], 'replay': {'which': 'stop', 'rp': {'fq': 0, 'wq': [0]}}}, rec)
    except RuntimeError as e:
        ctx.inconclusive.append('stop native battery unavailable: %s' % str(e)[-300:])
    # hypothesis H2: the dead incarnation's completion report handled after the replacement was given a job of the same key
    import C13_stale
    C13_stale.check(ctx, prog)
    ctx.bounds['worker_death'] = 'Factory::handle_supervisor_evt from every pool shape of C15_pool (pool_size 1..3 of 4 slots, draining workers busy, with / without one job queued behind the in-flight one)'


def replay_file(path):
    import json
    import C13_replay
    d = json.load(open(path))
    if d['replay'].get('which') == 'stop':
        import C13_stop_replay
        bad, _n = C13_stop_replay.battery()
        bad += C13_stop_replay.evaluate(d['replay']['rp']['fq'], d['replay']['rp']['wq'])[0]
        print('native Factory::post_stop:', bad)
        return 1 if bad else 0
    if d['replay'].get('which') == 'stale':
        import C13_stale_replay
        r = C13_stale_replay.replay(d['replay']['qkey'])
        print(r['detail'])
        return 1 if r['replayed'] else 0
    if d['replay'].get('which') == 'pool':
        import C15_pool_replay
        r = C15_pool_replay.replay(d['replay']['rp'])
        print(r['detail'])
        return 1 if r['replayed'] else 0
    r = C13_replay.replay_file(d['replay'])
    print(r['detail'])
    return 1 if r['replayed'] else 0
