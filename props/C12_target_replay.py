"""native side of the C12 target slice: timers against a target that has been stopped but is still inside post_stop (status Stopping, channel open)"""
import native


def run_native():
    out, _, rc, err = native.run('timer_stopping_target', timeout=60)
    if rc != 0:
        raise RuntimeError('native timer_stopping_target failed: ' + err[-300:])
    bad = []
    if out.get('status_in_window') != '5' or out.get('status_after_timers') != '5':
        bad.append('scenario_not_established: %s' % out)
    if out.get('late_handle') != 'err':
        bad.append('a_one_shot_timer_armed_on_a_stopping_target_reports_the_error')
    if out.get('early_handle') != 'err':
        bad.append('a_one_shot_timer_expiring_while_the_target_is_stopping_reports_the_error')
    if out.get('interval_task') != 'ended':
        bad.append('the_interval_task_ends_once_the_target_left_the_running_states')
    if out.get('log', ''):
        bad.append('nothing_is_delivered_to_a_target_that_left_the_running_states: %s' % out.get('log'))
    return {'observed': out, 'violated': bad}


def replay():
    r = run_native()
    return {'replayed': bool(r['violated']), 'detail': 'native timers against a target parked in post_stop: %s' % r, 'replay': {'scenario': 'timer_stopping_target', 'prop': 'C12', 'which': 'target'}}


def replay_from_json(d):
    r = replay()
    print(r['detail'])
    return 1 if r['replayed'] else 0
