"""native replay for C03: one poll of the real select!-based functions from concrete port contents (repeated, since an unbiased
select starts at a random branch)"""
import native

RUNS = 64


def expected_listen(r):
    sig, stop, sup, msg = r['sigq'], r['stopq'], r['supq'], r['msgq']
    if sig['full']:
        return 'ok:Signal'
    if sig['txdrop']:
        return 'err:ChannelClosed'
    if stop['full']:
        return 'ok:Stop'
    if stop['txdrop']:
        return 'err:ChannelClosed'
    if sup['has']:
        return 'ok:Supervision'
    if sup['closed']:
        return 'err:ChannelClosed'
    if msg['has']:
        return 'ok:Message'
    if msg['closed']:
        return 'err:ChannelClosed'
    return 'pending'


def native_listen(r):
    # the two mpsc channels can only be closed together natively (dropping the cell drops both senders)
    closed = r['supq']['closed'] and r['msgq']['closed']
    if r['supq']['closed'] != r['msgq']['closed']:
        return None
    out, _, rc, err = native.run('select_listen', runs=RUNS, sig_full=int(r['sigq']['full']), sig_drop=int(r['sigq']['txdrop'] and not r['sigq']['full']),
                                 stop_full=int(r['stopq']['full']), stop_drop=int(r['stopq']['txdrop'] and not r['stopq']['full']),
                                 sup_has=int(r['supq']['has']), msg_has=int(r['msgq']['has']), closed=int(closed))
    if rc != 0:
        raise RuntimeError('native select replay failed: ' + err[-300:])
    return [k for k in out['kinds'].split(',') if k]


def listen_violations(r, kinds):
    exp = expected_listen(r)
    bad = []
    left0 = {'sig': int(r['sigq']['full']), 'stop': int(r['stopq']['full']), 'sup': int(r['supq']['has']), 'msg': int(r['msgq']['has'])}
    chosen = {'ok:Signal': 'sig', 'ok:Stop': 'stop', 'ok:Supervision': 'sup', 'ok:Message': 'msg'}
    for k in kinds:
        kind, left = k.split('|')
        if kind != exp:
            bad.append('highest_priority_ready_port_wins: got %s expected %s' % (kind, exp))
        leftd = {x.split(':')[0]: int(x.split(':')[1]) for x in left.split(';')}
        for p, n in left0.items():
            want = n - (1 if chosen.get(kind) == p else 0)
            if leftd[p] != want and exp != 'err:ChannelClosed':
                bad.append('no_other_port_consumed: %s left %d expected %d' % (p, leftd[p], want))
    return bad


def replay_listen(ready, kind):
    kinds = native_listen(ready)
    if kinds is None:
        # try the nearest natively constructible variant: both channels open
        r2 = {q: dict(v) for q, v in ready.items()}
        r2['supq']['closed'] = r2['msgq']['closed'] = False
        kinds = native_listen(r2)
        ready = r2
    bad = listen_violations(ready, kinds)
    return {'replayed': bool(bad), 'detail': 'native listen_in_priority from %s over %d polls -> %s ; %s' % (ready, RUNS, kinds, bad[:3]),
            'replay': {'scenario': 'select_listen', 'ready': ready}}


def replay_rws(sig):
    bad = []
    obs = {}
    for fut_ready in (0, 1):
        out, _, rc, err = native.run('select_rws', runs=RUNS, sig_full=int(sig['full']), sig_drop=int(sig['txdrop'] and not sig['full']), fut_ready=fut_ready)
        if rc != 0:
            raise RuntimeError('native select replay failed: ' + err[-300:])
        kinds = [k for k in out['kinds'].split(',') if k]
        obs[fut_ready] = kinds
        sig_ready = sig['full'] or sig['txdrop']
        for k in kinds:
            kind, polls = k.split('|')
            n = int(polls.split('=')[1])
            if sig_ready and (kind != 'signal' or n != 0):
                bad.append('signal_preempts_without_polling_the_future: %s' % k)
            if not sig_ready and (n != 1 or kind != ('completed' if fut_ready else 'pending')):
                bad.append('future_result_passed_through: %s' % k)
    return {'replayed': bool(bad), 'detail': 'native run_with_signal with signal %s -> %s ; %s' % (sig, obs, bad[:3]), 'replay': {'scenario': 'select_rws', 'sig': sig}}


def replay_from_json(d):
    rp = d['replay']
    if rp['scenario'] == 'select_listen':
        r = replay_listen(rp['ready'], None)
    else:
        r = replay_rws(rp['sig'])
    print(r['detail'])
    return 1 if r['replayed'] else 0
