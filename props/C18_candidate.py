"""C18, engine-M slice: `NodeServerState::check_candidate` - what a session is told when it asks whether it may go on.

From states with 2..3 sessions (accepting / initiating, nonce none / 7 / 9, claimed peer name `peer` or another one, any subset authenticated, local name
ordered before or after the peer's), for every asking session, with the real `candidates_for_peer` and `elect_sessions`:
  * sessions that have not authenticated never influence the answer given to anybody else: the answer equals the one from the state without them
    ("can neither displace nor veto"); sessions claiming another peer name never matter
  * the answer agrees with the election among the authenticated sessions of that peer plus the asker: the asker is told it continues iff the kernel elects it,
    and "no other connection" iff it is alone
"""
import itertools
import z3

import cluster as cl
import lifeprops as lp
import models_std
import C17_gates as gates
from exec import State, Outcome, Inconclusive, Unmodelled
from values import *

FN = 'NodeServerState::check_candidate'


def mk_state(prog, I, st, sessions, auth, this):
    aid = lambda k: Enum('ActorId', 'Local', 0, (I.mk_int(k, 'u64'),))
    nm = lambda p: models_std.some(cl.record(prog, 'NameMessage', 'out/auth.rs', name=Str(p), connection_id=I.mk_int(0, 'u64'), connection_string=Str('peer:1'), flags=models_std.NONE))
    info = lambda k, s: cl.record(prog, 'NodeServerSessionInformation', actor=Opaque('ActorRef', ident='sess%d' % k), peer_name=nm(s[2]), is_server=z3.BoolVal(s[0]),
                                  node_id=I.mk_int(100 + k, 'u64'), peer_addr=Str('addr%d' % k))
    cid = lambda v: models_std.NONE if v == 0 else models_std.some(I.mk_int(v, 'u64'))
    return cl.record(prog, 'NodeServerState', node_sessions=Agg('HashMap', [Agg('()', (aid(k), info(k, s))) for k, s in sessions]),
                     authenticated_sessions=Agg('HashSet', [aid(k) for k in auth]), subscriptions=Agg('HashMap', ()),
                     connection_ids=Agg('HashMap', [Agg('()', (aid(k), cid(s[1]))) for k, s in sessions]),
                     this_node_name=cl.record(prog, 'NameMessage', 'out/auth.rs', name=Str(this)))


_memo = {}


def ask(ctx, prog, body, sessions, auth, asking, this):
    """reply variant of check_candidate (memoised on the concrete configuration); sessions: tuple of (id, (is_server, nonce, peer))"""
    key = (sessions, tuple(sorted(auth)), asking, this)
    if key in _memo:
        return _memo[key]
    I = gates.session_interp(prog, effects=False)
    st = State()
    sc = st.alloc(mk_state(prog, I, st, sessions, auth, this))
    outs = I.run_body(st, body, [Ref(sc, ()), Enum('ActorId', 'Local', 0, (I.mk_int(asking, 'u64'),))])
    ctx.absorb(I)
    ctx.paths += len(outs)
    if len(outs) != 1 or outs[0].kind != 'ret' or not isinstance(outs[0].val, Enum):
        raise Inconclusive('check_candidate: %d outcomes / %r' % (len(outs), outs[0].kind if outs else None))
    _memo[key] = (outs[0].val.variant, outs[0].st)
    return _memo[key]


def elect(ctx, prog, ebody, cands, this, peer):
    I = gates.session_interp(prog, effects=False)
    st = State()
    vec = Agg('Vec', [cl.record(prog, 'SessionElectionCandidate', actor_id=Enum('ActorId', 'Local', 0, (I.mk_int(k, 'u64'),)), is_server=z3.BoolVal(s[0]),
                                connection_id=models_std.NONE if s[1] == 0 else models_std.some(I.mk_int(s[1], 'u64'))) for k, s in cands])
    outs = I.run_body(st, ebody, [Ref(st.alloc(Str(this)), ()), Ref(st.alloc(Str(peer)), ()), vec])
    ctx.absorb(I)
    if len(outs) != 1 or outs[0].kind != 'ret':
        raise Inconclusive('elect_sessions: %d outcomes' % len(outs))
    v = models_std.deref_val(I, outs[0].st, outs[0].val)
    return sorted(z3.simplify(x.fields[0].t).as_long() for x in v.fields)


def configs(tier):
    nonces = (0, 7, 9)
    out = []
    for n in (2, 3):
        srvs = list(itertools.product((True, False), repeat=n))
        nns = list(itertools.product(nonces, repeat=n))
        if n == 3:
            srvs = [(True, True, True), (False, False, False), (True, False, True)] if tier == 'quick' else srvs
            nns = [(0, 0, 0), (7, 7, 9), (9, 7, 7), (7, 0, 9)] if tier == 'quick' else [(0, 0, 0), (7, 7, 7), (7, 7, 9), (9, 7, 7), (7, 9, 7), (7, 0, 9), (0, 7, 0), (9, 0, 7), (0, 0, 7)]
        for srv in srvs:
            for nn in nns:
                for other in (([None, 0] if tier == 'quick' else [None, 0, 2]) if n == 3 else [None]):
                    sessions = tuple((k + 1, (srv[k], nn[k], 'other' if other == k else 'peer')) for k in range(n))
                    out.append(sessions)
    return out


def check(ctx, prog):
    body = prog.find_fn(FN)
    ebody = prog.find_fn('elect_sessions')
    cfp = prog.find_fn('NodeServerState::candidates_for_peer')
    if body is None or ebody is None or cfp is None:
        raise Inconclusive('check_candidate / elect_sessions / candidates_for_peer not found')
    for b in (body, cfp):
        ctx.encoded(prog, b)
    seen = set()
    for sessions in configs(ctx.tier):
        ids = [k for k, _ in sessions]
        for r in range(len(ids) + 1):
            for auth in itertools.combinations(ids, r):
                for this in ('athis', 'this'):       # local name before / after "peer"
                    for asking in ids:
                        tag = '%s.auth%s.%s.ask%d' % ('_'.join('%s%d%s' % ('S' if s[0] else 'C', s[1], '' if s[2] == 'peer' else 'x') for _, s in sessions), ''.join(map(str, auth)) or '-', this, asking)
                        rp = {'sessions': [[k, [bool(s[0]), s[1], s[2]]] for k, s in sessions], 'auth': list(auth), 'asking': asking, 'this': this}
                        cex = (lambda rp=rp: (lambda m: replay(rp)))()
                        reply, st = ask(ctx, prog, body, sessions, auth, asking, this)
                        me = dict(sessions)[asking]
                        # (1) without the unauthenticated others, and without sessions of another peer name, the answer is the same
                        relevant = tuple((k, s) for k, s in sessions if k == asking or (k in auth and s[2] == me[2]))
                        reply2, _ = ask(ctx, prog, body, relevant, tuple(k for k in auth if k in dict(relevant)), asking, this)
                        claims = {'unauthenticated_or_foreign_sessions_do_not_influence_the_answer': reply == reply2}
                        # (2) agreement with the kernel on the authenticated sessions of that peer plus the asker
                        cands = tuple((k, s) for k, s in relevant)
                        elected = elect(ctx, prog, ebody, cands, this, me[2])
                        survives = asking in elected
                        want = ('NoOtherConnection' if len(cands) == 1 else 'ThisConnectionContinues') if survives else 'OtherConnectionContinues'
                        claims['answer_agrees_with_the_election_among_authenticated_sessions_and_the_asker'] = reply == want
                        if len(relevant) < len(sessions):
                            seen.add('ignored_session')
                        if not survives:
                            seen.add('asker_loses')
                        if reply == 'ThisConnectionContinues':
                            seen.add('asker_wins_competition')
                        lp.record(ctx, 'candidate.' + tag, st, claims, 'C18.candidate', on_cex=cex)
    for w in ('ignored_session', 'asker_loses', 'asker_wins_competition'):
        ctx.note_witness('C18.candidate.' + w, w in seen)
    ctx.bounds['check_candidate'] = '2..3 sessions (accepting / initiating, nonce none / 7 / 9, one of three optionally claiming another peer name), every subset authenticated, every asker, local name before / after the peer name'


_replayed = {}


def replay(rp):
    import json
    import C18_candidate_replay
    k = json.dumps(rp, sort_keys=True)
    if k not in _replayed:
        _replayed[k] = C18_candidate_replay.replay(rp)
    return _replayed[k]
