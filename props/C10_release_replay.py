"""native side of the C10 release slice: a successor takes the name while its predecessor is parked in post_stop"""
import native


def run_native():
    out, _, rc, err = native.run('name_reuse', timeout=60)
    if rc != 0:
        raise RuntimeError('native name_reuse failed: ' + err[-300:])
    bad = []
    if out.get('predecessor_status') != '5' or out.get('successor_spawned') != '1' or out.get('predecessor_final') != '6':
        bad.append('scenario_not_established: %s' % out)
    if out.get('lookup_is_successor') != '1':
        bad.append('the_exit_of_the_predecessor_leaves_the_successors_entry_alone')
    if out.get('third_spawn_rejected') != '1':
        bad.append('a_name_maps_to_at_most_one_live_actor')
    return {'observed': out, 'violated': bad}


def replay():
    r = run_native()
    return {'replayed': bool(r['violated']), 'detail': 'native name reuse while the predecessor is in post_stop: %s' % r, 'replay': {'scenario': 'name_reuse', 'prop': 'C10', 'which': 'release'}}


def replay_from_json(d):
    if (d.get('replay') or {}).get('which') == 'clash':
        r = replay_clash()
        print(r['detail'])
        return 1 if r['replayed'] else 0
    r = replay()
    print(r['detail'])
    return 1 if r['replayed'] else 0


def run_clash():
    out, _, rc, err = native.run('name_clash', timeout=60)
    if rc != 0:
        raise RuntimeError('native name_clash failed: ' + err[-300:])
    bad = []
    for k in ('regular_refused', 'thread_local_refused', 'thread_local_instant_refused', 'still_refused_afterwards'):
        if out.get(k) != '1':
            bad.append('a_spawn_under_a_held_name_is_refused: %s=%s' % (k, out.get(k)))
    for k in ('holder_after_regular', 'holder_after_thread_local', 'holder_after_thread_local_instant'):
        if out.get(k) != '1':
            bad.append('a_name_clash_changes_nothing_about_the_holder: %s=%s' % (k, out.get(k)))
    return {'observed': out, 'violated': bad}


def replay_clash():
    r = run_clash()
    return {'replayed': bool(r['violated']), 'detail': 'native spawns under a held name (regular, thread-local, thread-local instant): %s' % r, 'replay': {'scenario': 'name_clash', 'prop': 'C10', 'which': 'clash'}}
