"""native side of the C10 release slice: a successor takes the name while its predecessor is parked in post_stop"""
import native


def run_native():
    out, _, rc, err = native.run('name_reuse', timeout=60)
    if rc != 0:
        raise RuntimeError('native name_reuse failed: ' + err[-300:])
    bad = []
    if out.get('predecessor_status') != '5' or out.get('successor_spawned') != '1' or out.get('predecessor_final') != '6':
        bad.append('scenario_not_established: %s' % out)
    if out.get('lookup_is_successor') != '1':
        bad.append('the_exit_of_the_predecessor_leaves_the_successors_entry_alone')
    if out.get('third_spawn_rejected') != '1':
        bad.append('a_name_maps_to_at_most_one_live_actor')
    return {'observed': out, 'violated': bad}


def replay():
    r = run_native()
    return {'replayed': bool(r['violated']), 'detail': 'native name reuse while the predecessor is in post_stop: %s' % r, 'replay': {'scenario': 'name_reuse', 'prop': 'C10', 'which': 'release'}}


def replay_from_json(d):
    r = replay()
    print(r['detail'])
    return 1 if r['replayed'] else 0
