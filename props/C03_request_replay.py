"""native side of the C03 request slice: stop / kill requested while a handler is parked and a backlog is queued, with and without a drain requested before"""
import native


def run_native(mode, drain):
    out, _, rc, err = native.run('request', mode=mode, drain=1 if drain else 0, timeout=60)
    if rc != 0:
        raise RuntimeError('native request failed: ' + err[-300:])
    return {'ended': out.get('ended') == '1', 'starts_after': int(out.get('starts_after', '-1')), 'log': [x for x in out.get('log', '').split(',') if x],
            'terms': [x for x in out.get('terms', '').split(',') if x]}


def violated(o, mode):
    bad = []
    if not o['ended']:
        bad.append('the_actor_exits_after_the_request')
    if o['starts_after'] != 0:
        bad.append('no_handler_starts_once_the_request_has_returned')
    if mode == 'stop':
        if 'e1' not in o['log'] or 'post_stop' not in o['log']:
            bad.append('stop_lets_the_running_handler_finish_and_post_stop_runs')
        if o['ended'] and o['terms'] != ['terminated:the-reason']:
            bad.append('the_exit_reports_the_stop_reason')
    else:
        if 'e1' in o['log'] or 'post_stop' in o['log']:
            bad.append('kill_lets_no_callback_progress_and_skips_post_stop')
        if o['ended'] and o['terms'] != ['terminated:killed']:
            bad.append('the_exit_reports_killed')
    return bad


def battery():
    res = []
    for mode in ('stop', 'kill'):
        for drain in (False, True):
            o = run_native(mode, drain)
            res.append({'mode': mode, 'drain_requested_first': drain, 'log': o['log'], 'terms': o['terms'], 'violated': violated(o, mode)})
    return res


def replay(mode=None):
    res = battery()
    bad = [r for r in res if r['violated']]
    return {'replayed': bool(bad), 'detail': 'native request battery (real actor, parked handler, backlog): %s' % (bad or res), 'replay': {'scenario': 'request', 'prop': 'C03', 'which': 'request'}}


def replay_from_json(d):
    r = replay()
    print(r['detail'])
    return 1 if r['replayed'] else 0
