"""native side of the C20 writer slice: the real write task against an in-memory duplex; a backlog larger than any internal batch bound is queued before the task
starts, the queue is closed, and every frame must come out of the other end once, in order, intact"""
import native


def run_native(frames=300, size=1000):
    out, _, rc, err = native.run('write_backlog', frames=frames, size=size, timeout=90)
    if rc != 0:
        raise RuntimeError('native write_backlog failed: ' + err[-300:])
    got = [int(x) for x in out.get('got', '').split(',') if x]
    bad = []
    if got != list(range(frames)):
        missing = sorted(set(range(frames)) - set(got))
        bad.append('%d frames queued, %d read back; missing %s; in order: %s' % (frames, len(got), missing[:6], got == sorted(got)))
    if out.get('intact') != '1':
        bad.append('a payload was altered')
    return {'frames': frames, 'size': size, 'read_back': len(got), 'violated': bad}


def replay():
    res = [run_native(300, 1000), run_native(40, 10)]
    bad = [r for r in res if r['violated']]
    return {'replayed': bool(bad), 'detail': 'native write task with a queued backlog: %s' % (bad or res), 'replay': {'scenario': 'write_backlog', 'prop': 'C20', 'which': 'writer'}}


def replay_from_json(d):
    r = replay()
    print(r['detail'])
    return 1 if r['replayed'] else 0
