"""Driver for the sequential lifecycle checks: builds a real-shaped ActorRuntime, runs the real `start` coroutine and the
spawned actor task poll by poll, with arbitrary port contents before every poll and opaque user callbacks.

Trace vocabulary (State.trace):
  ('CB', 'start'|'poll'|'end'|'cancelled', name, uid[, outcome])     user callbacks
  ('SUPEVT', variant, detail)                                         supervision event sent to the supervisor's port
  ('FX', name)                                                        registry / pg / link effects
  ('STATUS', value)                                                   status word after each set_status
  ('SPAWN', cell)                                                     actor task spawned
  ('TASKEND', 'ret'|'unwind')                                         actor task finished
"""
import re
import z3

import lifecycle as lc
import world
import models_std
import objects
from exec import State, Outcome, Inconclusive, Unmodelled
from values import *

START = 'ActorRuntime::<TActor>::start'
CALLBACKS = ('pre_start', 'post_start', 'handle', 'handle_supervisor_evt', 'post_stop', 'handle_serialized')


def new_interp(prog, poll_budget=1, runtime='ActorRuntime'):
    I = lc.new_interp(prog, poll_budget, loop_bound=8)
    I.runtime = runtime
    trait = 'Actor' if runtime == 'ActorRuntime' else 'ThreadLocalActor'

    def user_cb(name):
        def fn(I, st, f, args, fr):
            okv = None
            if name == 'pre_start':
                def okv(I, st):
                    eff = getattr(I, 'pre_start_effect', None)
                    if eff is not None:
                        eff(I, st)
                    return Opaque('State', ident='the-state')
            if name in ('handle', 'handle_serialized') and len(args) > 2:
                st.emit('CBARG', name, args[2])   # which message this handler invocation was given (C02: the dequeued one)
            return I.ret(st, I.user_future(name, ok_value=okv))
        return fn
    for cb in CALLBACKS:
        I.model(r'^<TActor as (actor::)?(Actor|ThreadLocalActor)>::%s$' % cb, 'user callback %s (opaque future)' % cb)(user_cb(cb))

    @I.model(r'^<<TActor as (actor::)?(Actor|ThreadLocalActor)>::Msg as (message::)?Message>::from_boxed$', 'user Message::from_boxed (opaque)')
    def m_from_boxed(I, st, f, args, fr):
        b = args[0]
        outs = []
        ser = None
        if isinstance(b, Agg) and b.ty == 'BoxedMessage':
            ser = any(isinstance(x, Enum) and x.variant == 'Some' and x.fields and isinstance(x.fields[0], Opaque) and x.fields[0].tag == 'SerializedMessage' for x in b.fields)
        s2 = st.fork()
        s3 = s2.fork()
        st.emit('DECODE', ser, 'ok')
        s2.emit('DECODE', ser, 'err')
        s3.emit('DECODE', ser, 'panic')
        outs.append(Outcome(st, 'ret', models_std.ok(Opaque('typed-msg', info=b))))
        outs.append(Outcome(s2, 'ret', models_std.err(Agg('BoxedDowncastErr', ()))))
        s3.emit('PANIC', 'from_boxed')
        s3.ghost['panic_payload'] = Opaque('decode-panic')
        outs.append(Outcome(s3, 'unwind', s3.ghost['panic_payload']))
        return outs

    def fx(name, ret=UNIT):
        def fn(I, st, f, args, fr):
            st.emit('FX', name)
            return I.ret(st, ret)
        return fn
    ov = I.override
    ov.append((re.compile(r'(^|::)unregister_pid$'), fx('unregister_pid')))
    ov.append((re.compile(r'(^|::)pid_registry::demonitor$'), fx('pid_demonitor')))
    ov.append((re.compile(r'(^|::)unregister::<'), fx('unregister_name')))
    ov.append((re.compile(r'(^|::)demonitor_all$'), fx('pg_demonitor_all')))
    ov.append((re.compile(r'(^|::)leave_all$'), fx('pg_leave_all')))
    ov.append((re.compile(r'(^|::)get_panic_string$'), lambda I, st, f, a, fr: I.ret(st, Opaque('panic-string', info=a[0]))))

    @I.model(r'^tokio::spawn(::<.*>)?$|^tokio::task::spawn_local(::<.*>)?$', 'tokio::spawn (the future becomes a separate task, driven by the harness)')
    def m_spawn(I, st, f, args, fr):
        c = st.alloc(args[0])
        st.ghost['spawned'] = st.ghost.get('spawned', ()) + (c,)
        st.emit('SPAWN', c)
        return I.ret(st, Agg('JoinHandle', (I.mk_int(c, 'usize'),)))

    @I.model(r'^BoxedState::new(::<.*>)?$|^actor::messages::BoxedState::new', 'BoxedState::new (opaque box)')
    def m_boxed_state(I, st, f, args, fr):
        return I.ret(st, Opaque('BoxedState', info=args[0]))

    @I.model(r'^<.* as Into<Box<dyn (std::error::)?Error.*>>>::into$|^<Box<dyn (std::error::)?Error.*> as From<.*>>::from$', 'Into<Box<dyn Error>> (opaque error box)')
    def m_into_err(I, st, f, args, fr):
        return I.ret(st, Opaque('boxed-error', info=args[0]))

    # ---- thread-local runtime: the spawner thread. `ThreadLocalActorSpawner::spawn(builder, name)` either finds the spawner gone (the builder is dropped
    # unrun) or the spawner thread calls `builder()`, runs the returned start-up future as a local task and hands its result back.
    def tl_spawn(I, st, f, args, fr):
        return I.ret(st, Opaque('tlspawn', info={'builder': args[1], 'n': fresh_id()}))
    ov.append((re.compile(r'ThreadLocalActorSpawner::spawn$'), tl_spawn))

    @I.model(r'^<.* as (futures::)?FutureExt>::boxed_local$|(^|::)FutureExt::boxed_local(::<.*>)?$', 'FutureExt::boxed_local (Pin<Box<dyn Future>>)')
    def m_boxed_local(I, st, f, args, fr):
        return I.ret(st, BoxV(st.alloc(args[0]), 'Box'))

    @I.model(r'^<TActor as Default>::default$', 'the thread-local handler is built on the spawner thread (opaque)')
    def m_handler_default(I, st, f, args, fr):
        return I.ret(st, Opaque('TActor', ident='the-handler'))

    prev_po = I.hooks.get('poll_other')

    def poll_tlspawn(I, st, v, cell, path, cx, fr):
        if not (isinstance(v, Opaque) and v.tag == 'tlspawn'):
            return prev_po(I, st, v, cell, path, cx, fr) if prev_po else None
        key = ('tlspawn', v.info['n'])
        outs = []
        startup_failed = lambda s, why: models_std.ready(models_std.err(Enum('SpawnErr', 'StartupFailed', 0, (Opaque('boxed-error', info=why),))))
        if key not in st.ghost:
            # spawner dead: the request never runs; the builder (owning ports, guard, arguments) is dropped
            s0 = st.fork()
            s0.emit('FX', 'spawner_dead')
            for o in I.drop_value(s0, v.info['builder'], None):
                if o.kind == 'ret':
                    outs.append(Outcome(o.st, 'ret', startup_failed(o.st, 'Spawner dead')))
                else:
                    outs.append(o)
            b = v.info['builder']
            clo = I.read(st, b.cell, ()) if isinstance(b, BoxV) else b
            started = []
            for o in I.call_closure(st, clo, [], fr, by='value'):
                if o.kind != 'ret':
                    outs.append(Outcome(o.st, 'ret', startup_failed(o.st, 'join error')))
                    continue
                fut = o.val
                o.st.ghost[key] = fut.cell if isinstance(fut, BoxV) else o.st.alloc(fut)
                started.append(o.st)
        else:
            started = [st]
        for s in started:
            for o in I.poll_at(I, s, s.ghost[key], (), cx, fr):
                if o.kind == 'unwind':
                    # the start-up task panicked: JoinError
                    o.st.emit('CAUGHT', 'startup task panic')
                    outs.append(Outcome(o.st, 'ret', startup_failed(o.st, 'join error')))
                else:
                    outs.append(o)
        return outs
    I.hooks['poll_other'] = poll_tlspawn

    def chan_ident(I, st, o, value):
        if o.oid in ('sup_supq', 'obs_supq'):
            v = value
            var = v.variant if isinstance(v, Enum) else repr(v)
            st.emit('SUPEVT', var, v.fields[1:] if isinstance(v, Enum) else (), o.oid[:-5])
            return {'ActorStarted': 1, 'ActorTerminated': 2, 'ActorFailed': 3}.get(var, 9)
        return 5
    I.hooks['chan_ident'] = chan_ident
    return I


class Actor:
    """one actor (cell 'a') with an optional supervisor (cell 's'); ports of 'a' are the symbolic-readiness objects of lifecycle.py"""

    def __init__(self, prog, I, st, with_supervisor=True, sup_status=2, name=None, observer=False):
        self.prog, self.I = prog, I
        pd = prog.crate.struct('ActorProperties')
        td = prog.crate.struct('SupervisionTree')
        self.pd, self.td = pd, td

        def mutex(oid, inner):
            st.objs[oid] = objects.mutex_init()
            st.ghost[('mutex_inner', oid)] = st.alloc(inner)
            return Obj('mutex', oid)

        def mk_cell(tag, pid, status, ports_local):
            f = {k: Opaque('%s.%s' % (tag, k), ident='%s.%s' % (tag, k)) for k in pd['fields']}
            st.objs[tag + '_status'] = {'w': z3.BitVecVal(status, 8)}
            f['status'] = Obj('atomic', tag + '_status')
            f['id'] = Enum('ActorId', 'Local', 0, (I.mk_int(pid, 'u64'),))
            f['name'] = models_std.NONE if name is None or tag != 'a' else models_std.some(Str(name))
            st.objs[tag + '_notify'] = objects.notify_init(1)
            f['wait_handler'] = Obj('notify', tag + '_notify')
            if ports_local:
                # senders of the actor's own ports are not used by the actor task itself except through kill()/stop() on itself
                st.objs[tag + '_sigtx'] = objects.oneshot_init()
                f['signal'] = mutex(tag + '_sigmx', models_std.some(Obj('oneshot', tag + '_sigtx', 'tx')))
                st.objs[tag + '_stoptx'] = objects.oneshot_init()
                f['stop'] = mutex(tag + '_stopmx', models_std.some(Obj('oneshot', tag + '_stoptx', 'tx')))
            st.objs[tag + '_supq'] = objects.chan_init(6)
            f['supervision'] = Obj('chan', tag + '_supq', 'tx')
            I.objinfo[tag + '_supq'] = {'name': tag + '.supervision'}
            tf = {k: Opaque('tree.' + k) for k in td['fields']}
            tf['children'] = mutex(tag + '_children', models_std.some(Agg('HashMap', ())))
            tf['supervisor'] = mutex(tag + '_supervisor', models_std.NONE)
            if 'monitors' in tf:
                tf['monitors'] = mutex(tag + '_monitors', models_std.NONE)
            f['tree'] = Agg('SupervisionTree', [tf[k] for k in td['fields']])
            pc = st.alloc(Agg('ActorProperties', [f[k] for k in pd['fields']]))
            return Agg('ActorCell', (BoxV(pc, 'Arc'),)), pc
        self.cell, self.pcell = mk_cell('a', 1, 0, True)
        self.sup_cell = None
        if with_supervisor:
            self.sup_cell, self.sup_pcell = mk_cell('sup', 2, sup_status, True)
        self.obs_cell = None
        if observer:
            # a third, running actor that user code in pre_start may link this actor to
            self.obs_cell, self.obs_pcell = mk_cell('obs', 3, 2, True)
        self.init_ports = lc.symbolic_ports(I, st, 'p0')
        self.ports = lc.portset_value(prog)
        self.actor_ref = Agg('ActorRef', (self.cell, Agg('PhantomData', ())))

    def runtime_value(self, st):
        rd = self.prog.crate.struct(self.I.runtime)
        gd = self.prog.crate.struct('ActorLifecycleGuard')
        if not rd or not gd:
            raise Inconclusive('runtime / guard struct not found')
        g = {'actor': self.cell, 'notify_on_cancel': z3.BoolVal(False), 'armed': z3.BoolVal(True)}
        if sorted(gd['fields']) != sorted(g):
            raise Inconclusive('ActorLifecycleGuard fields changed: %s' % gd['fields'])
        guard = Agg('ActorLifecycleGuard', [g[k] for k in gd['fields']])
        r = {'actor_ref': self.actor_ref, 'lifecycle': guard, 'handler': Opaque('TActor', ident='the-handler'), 'id': Enum('ActorId', 'Local', 0, (self.I.mk_int(1, 'u64'),)),
             'name': models_std.NONE}
        # the thread-local runtime keeps its handler outside the struct (it is built on the actor's own thread)
        if not (set(rd['fields']) <= set(r) and {'actor_ref', 'lifecycle', 'id', 'name'} <= set(rd['fields'])):
            raise Inconclusive('%s fields changed: %s' % (self.I.runtime, rd['fields']))
        return Agg(self.I.runtime, [r[k] for k in rd['fields']])

    # observers
    def status(self, st):
        return st.objs['a_status']['w']

    def sup_events(self, st):
        return [e for e in st.trace if e[0] == 'SUPEVT']

    def supervisor_of_a(self, st):
        v = st.cells[st.ghost[('mutex_inner', 'a_supervisor')]]
        return v.variant == 'Some'

    def link_to_observer(self, st):
        """effect of `myself.link(observer)` executed by user code: supervisor(a) = observer, a in children(observer)"""
        st.cells[st.ghost[('mutex_inner', 'a_supervisor')]] = models_std.some(self.obs_cell)
        key = Enum('ActorId', 'Local', 0, (self.I.mk_int(1, 'u64'),))
        st.cells[st.ghost[('mutex_inner', 'obs_children')]] = models_std.some(Agg('HashMap', (Agg('()', (key, self.cell)),)))
        st.emit('FX', 'pre_start_links_observer')

    def child_of_obs(self, st):
        v = st.cells[st.ghost[('mutex_inner', 'obs_children')]]
        return v.variant == 'Some' and len(v.fields[0].fields) > 0

    def child_of_sup(self, st):
        v = st.cells[st.ghost[('mutex_inner', 'sup_children')]]
        return v.variant == 'Some' and len(v.fields[0].fields) > 0


def cancel_task(I, st, ccell):
    """the executor drops the task future at this suspension point (JoinHandle::abort / runtime shutdown): the lifecycle guard the task
    owns is dropped exactly once (it is an upvar of the task's async block until `finish` consumes it); the callback that was pending is
    cancelled. The precise per-state drop shim is not interpreted: only the guard's Drop (real MIR) runs."""
    co = I.read(st, ccell, ())
    active = None
    for e in st.trace:
        if e[0] == 'CB' and e[1] == 'start':
            active = e
        elif e[0] == 'CB' and e[1] in ('end', 'cancelled') and active is not None and e[3] == active[3]:
            active = None
    if active is not None:
        st.emit('CB', 'cancelled', active[2], active[3])
    st.emit('TASK_ABORTED')
    outs = []
    guards = [(i, v) for i, v in enumerate(co.upvars) if isinstance(v, Agg) and v.ty == 'ActorLifecycleGuard']
    if len(guards) != 1:
        raise Inconclusive('expected exactly one lifecycle guard among the task upvars, found %d' % len(guards))
    i, g = guards[0]
    for o in I.drop_value(st, g, Ref(ccell, (i,), True)):
        outs.append(o)
    return outs


def drive(I, st, ccell, max_polls, tag, on_pending=None, cancel_points=False):
    """poll the coroutine at ccell until it completes; before every re-poll the port contents become arbitrary again.
    returns list of (state, kind, value, polls)"""
    done = []
    frontier = [(st, 0)]
    if cancel_points:
        # the earliest cancellation point: the task is aborted after it was spawned but before the executor polled it once
        cs = st.fork()
        cs.emit('CANCEL_BEFORE_FIRST_POLL')
        for co in cancel_task(I, cs, ccell):
            done.append((co.st, 'cancelled' if co.kind == 'ret' else co.kind, None, 0))
    while frontier:
        s, n = frontier.pop()
        outs = lc.poll_coro(I, s, ccell)
        for o in outs:
            if o.kind != 'ret':
                done.append((o.st, o.kind, o.val, n + 1))
                continue
            if o.val.variant == 'Ready':
                done.append((o.st, 'ready', o.val.fields[0], n + 1))
            elif n + 1 >= max_polls:
                done.append((o.st, 'budget', None, n + 1))
            else:
                if cancel_points:
                    cs = o.st.fork()
                    for co in cancel_task(I, cs, ccell):
                        done.append((co.st, 'cancelled' if co.kind == 'ret' else co.kind, None, n + 1))
                lc.refresh_ports(I, o.st, '%s%d_%d' % (tag, n + 1, fresh_id()))
                if on_pending:
                    on_pending(o.st)
                frontier.append((o.st, n + 1))
    return done


def run_start(prog, poll_budget=1, with_supervisor=True, sup_status=2, max_polls=3, runtime='ActorRuntime'):
    """returns (I, actor, list of (state, kind, value, polls)) for the `start` future"""
    I = new_interp(prog, poll_budget, runtime)
    st = State()
    a = Actor(prog, I, st, with_supervisor, sup_status)
    rv = a.runtime_value(st)
    pcell_ports = a.ports
    sup = models_std.some(a.sup_cell) if with_supervisor else models_std.NONE
    fn = '%s::<TActor>::start' % runtime
    body = prog.find_fn(fn)
    if body is None:
        raise Inconclusive('function not found: ' + fn)
    I.stats['calls_inlined'].add(body.name)
    outs = I.run_body(st, body, [rv, pcell_ports, Opaque('Arguments'), sup])
    if len(outs) != 1 or not isinstance(outs[0].val, Coro):
        raise Inconclusive('start did not return a coroutine')
    st = outs[0].st
    ccell = st.alloc(outs[0].val)
    res = drive(I, st, ccell, max_polls, 'st')
    return I, a, res, ccell


def run_task(I, st, max_polls, tag='tk', cancel_points=False):
    """drive the spawned actor task of state `st` to completion; returns list of (state, kind, value, polls)"""
    sp = st.ghost.get('spawned', ())
    if len(sp) != 1:
        raise Inconclusive('expected exactly one spawned task, found %d' % len(sp))
    res = drive(I, st, sp[0], max_polls, tag, cancel_points=cancel_points)
    for (s, kind, v, n) in res:
        if kind in ('ready', 'unwind', 'abort'):
            s.emit('TASKEND', kind)
    return res


def summarize(s):
    """compact, hashable view of a trace for oracles and samples"""
    out = []
    for e in s.trace:
        if e[0] == 'CB' and e[1] in ('start', 'end', 'cancelled'):
            out.append(('CB',) + tuple(x for x in e[1:] if not isinstance(x, int)))
        elif e[0] == 'SUPEVT':
            out.append(('SUPEVT', e[1]))
        elif e[0] == 'FX':
            out.append(e)
        elif e[0] in ('SPAWN', 'TASKEND', 'CAUGHT', 'PANIC'):
            out.append((e[0],) + tuple(str(x)[:40] for x in e[1:2]))
    return tuple(out)
