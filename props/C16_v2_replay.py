"""native replay for the C16 v2 slice: the real dispatch_batch (probe in port::output::v2::inner, ractor built with output-port-v2) on recording subscribers,
and the public v2 port with real subscriber actors"""
import native


def reference(initial, items, allow_dup, refuse):
    cur = list(initial)
    log = []
    for it in items:
        if it[0] == 'D':
            for (sid, nm) in list(cur):
                acc = (nm, it[1]) not in refuse
                log.append((nm, it[1], acc))
                if not acc:
                    cur.remove((sid, nm))
        elif it[0] == 'S':
            idx = next((i for i, (x, _) in enumerate(cur) if x == it[1]), None)
            if idx is not None and not allow_dup:
                cur[idx] = (it[1], it[2])
            else:
                cur.append((it[1], it[2]))
    return cur, log


def run_dispatch(initial, items, allow_dup, refuse):
    out, rc, err = native.run_ext('replay_v2', 'vreplay_v2', 'dispatch', initial=','.join('%d:%s' % x for x in initial), items=','.join('%s:%d:%s' % x for x in items),
                                  dup=int(allow_dup), refuse=','.join('%s:%d' % x for x in refuse))
    if rc != 0:
        raise RuntimeError('native v2 dispatch failed: ' + err[-300:])
    log = [(a, int(b), c == '1') for a, b, c in (x.split(':') for x in out.get('log', '').split(',') if x)]
    ids = [int(x) for x in out.get('ids', '').split(',') if x]
    return log, ids, int(out.get('batch_left', '-1'))


def evaluate(initial, items, allow_dup, refuse):
    log, ids, left = run_dispatch(initial, items, allow_dup, refuse)
    cur, ref = reference(initial, items, allow_dup, refuse)
    bad = []
    names = {n for (n, _, _) in log} | {n for (n, _, _) in ref}
    for n in sorted(names):
        a = [(v, acc) for (m, v, acc) in log if m == n]
        b = [(v, acc) for (m, v, acc) in ref if m == n]
        if a != b:
            bad.append('subscriber %s received %s, expected %s' % (n, a, b))
    if ids != [x for (x, _) in cur]:
        bad.append('subscribers afterwards %s, expected %s' % (ids, [x for (x, _) in cur]))
    if left != 0:
        bad.append('batch not consumed (%d left)' % left)
    return bad


def items_of(shape):
    items, nid = [], 10
    for k, a in enumerate(shape):
        if a == 'D':
            items.append(('D', k, '-'))
        elif a == 'Snone':
            items.append(('N', 0, '-'))
        elif a == 'Sdup':
            items.append(('S', 1, 'n%d' % k))
        else:
            items.append(('S', nid, 'n%d' % k))
            nid += 1
    return items


def public_port():
    out, rc, err = native.run_ext('replay_v2', 'vreplay_v2', 'port')
    if rc != 0:
        raise RuntimeError('native v2 port failed: ' + err[-300:])
    log = [x for x in out.get('log', '').split(',') if x]
    got = {w: [int(x.split(':')[1]) for x in log if x.startswith(w + ':')] for w in 'abc'}
    bad = []
    if got['a'] != [1, 2, 3, 4]:
        bad.append('a (stops after 4): %s' % got['a'])
    if got['b'] != [3, 4, 5, 6] + list(range(100, 160)) and got['b'] != [3, 4, 5, 6] + [v for v in range(100, 160) if v % 10 != 9]:
        bad.append('b (subscribed after 2, filters x9): %s' % got['b'][:12])
    if [v for v in got['b'] if v % 10 == 9]:
        bad.append('b received a filtered value')
    if got['c'] != list(range(100, 160)):
        bad.append('c (subscribed after 9; the v2 port skips nothing): %s ... %d values' % (got['c'][:5], len(got['c'])))
    return bad


def replay(n_subs, shape, allow_dup, sends):
    initial = [(i + 1, 's%d' % i) for i in range(n_subs)]
    items = items_of(shape)
    idx = {'m%d' % k: k for k in range(len(shape))}
    refuse = [(e[1], idx[e[2]]) for e in sends if not e[3]]
    bad = evaluate(initial, items, allow_dup, refuse)
    # and every single-refusal variant of the same batch
    for (sid, nm) in initial + [(it[1], it[2]) for it in items if it[0] == 'S']:
        for it in items:
            if it[0] == 'D':
                bad += evaluate(initial, items, allow_dup, [(nm, it[1])])
    if not bad:
        bad += public_port()
    return {'replayed': bool(bad), 'detail': 'native v2 dispatch_batch on recording subscribers: %s' % (bad[:3] or 'no violation'),
            'replay': {'which': 'v2', 'n_subs': n_subs, 'shape': list(shape), 'allow_dup': allow_dup, 'refuse': refuse}}


def battery():
    bad, n = [], 0
    for shape in (('D', 'Snew', 'D'), ('Snew', 'D', 'D'), ('D', 'Sdup', 'D'), ('D', 'D', 'Snone', 'D'), ('Sdup', 'Sdup', 'D')):
        for dup in (True, False):
            for n_subs in (0, 2):
                initial = [(i + 1, 's%d' % i) for i in range(n_subs)]
                items = items_of(shape)
                for refuse in ([], [('s0', 0)], [('n1', 2)]):
                    bad += evaluate(initial, items, dup, refuse)
                    n += 1
    bad += public_port()
    return bad, n + 1
