"""C07 - Drain processes everything accepted and admits nothing afterwards (concurrent mode of engine M)."""
import os
import time
import z3

import conc
import mailbox as mb
from exec import Inconclusive, State
from values import *
from framework import mval

SEND = 'ActorProperties::send_message_unchecked::<TMessage>'
DRAIN = 'ActorProperties::drain'


def build_threads(prog, n_senders, n_msgs, n_drainers, loop_bound, status0=2):
    """returns (trees, meta): meta[t] = dict(kind, idents)"""
    trees = []
    meta = []
    tid = 0
    interps = []
    for i in range(n_senders):
        I = mb.new_interp(prog, loop_bound)
        pv = mb.props_value(prog, I)
        idents = [mb.msg_ident(i, j) for j in range(n_msgs)]

        def mkprog(j):
            def program(I, st, pv=pv, idents=idents):
                cell = st.alloc(pv)
                return mb.run_calls(I, st, [('send%d' % j, SEND, (lambda s: [Ref(cell, ()), Opaque('msg', ident=idents[j])]))], call_base=j)
            return program

        def summarize(s, kind, results, seg, idents=idents):
            return {'kind': kind, 'send': mb.classify_send(results[0], idents[seg]) if kind == 'ret' else None}
        tr = conc.unfold(I, 'sender%d' % i, tid, State, [mkprog(j) for j in range(n_msgs)], summarize)
        trees.append(tr)
        meta.append({'kind': 'sender', 'idents': idents})
        interps.append(I)
        tid += 1
    for d in range(n_drainers):
        I = mb.new_interp(prog, loop_bound)
        pv = mb.props_value(prog, I)

        def program(I, st, pv=pv):
            cell = st.alloc(pv)
            return mb.run_calls(I, st, [('drain', DRAIN, lambda s: [Ref(cell, ())])])

        def summarize(s, kind, results, seg):
            r = results[0] if results else None
            return {'kind': kind, 'drain_ok': isinstance(r, Enum) and r.variant == 'Ok'}
        tr = conc.unfold(I, 'drainer%d' % d, tid, State, program, summarize)
        trees.append(tr)
        meta.append({'kind': 'drainer'})
        interps.append(I)
        tid += 1
    return trees, meta, interps


def oracle(bmc, trees, meta):
    """returns (premise, dict name -> claim)"""
    T = len(trees)
    claims = {}
    all_leaf = z3.And([bmc.finished(t, ('ret', 'unwind', 'abort')) for t in range(T)])
    claims['no_thread_panics'] = z3.And([bmc.finished(t, ('ret',)) for t in range(T)])
    marker_nodes = mb.send_events(trees, mb.MARKER)
    marker_sent = [z3.And(bmc.executed[n], n.event.res['ok']) for n in marker_nodes]
    n_markers = mb.count_true(marker_sent)
    has_drainer = any(m['kind'] == 'drainer' for m in meta)
    if has_drainer:
        claims['exactly_one_marker'] = n_markers == 1
    marker_pos = z3.BitVecVal(255, 8)
    for n, c in zip(marker_nodes, marker_sent):
        marker_pos = z3.If(c, n.event.res['apos'], marker_pos)
    q = bmc.final_state('msgq')
    claims['queue_model_not_overflowed'] = z3.And([z3.Not(z3.And(bmc.executed[n], n.event.res['overflow'])) for tr in trees for n in tr.event_nodes() if n.event.opname == 'send'] or [z3.BoolVal(True)])
    claims['status_at_least_draining'] = z3.UGE(bmc.final_state('status')['w'], 4) if has_drainer else z3.BoolVal(True)
    drain_last = []
    for t, m in enumerate(meta):
        if m['kind'] == 'drainer':
            drain_last.append(mb.pick_time(bmc, mb.last_event_nodes(trees[t], 0), 0))
    for t, m in enumerate(meta):
        if m['kind'] != 'sender':
            continue
        prev_pos = None
        prev_ok = None
        for j, ident in enumerate(m['idents']):
            ret = bmc.leaf_select(t, lambda leaf: z3.BitVecVal(leaf.data['send'], 4), z3.BitVecVal(15, 4), seg=j)
            evs = mb.send_events(trees, ident)
            enq = [z3.And(bmc.executed[n], n.event.res['ok']) for n in evs]
            cnt = mb.count_true(enq)
            apos = z3.BitVecVal(254, 8)
            for n, c in zip(evs, enq):
                apos = z3.If(c, n.event.res['apos'], apos)
            nm = 't%d.m%d' % (t, j)
            claims[nm + '.ok_implies_enqueued_once_before_marker'] = z3.Implies(ret == 0, z3.And(cnt == 1, z3.ULT(apos, marker_pos) if has_drainer else z3.BoolVal(True)))
            claims[nm + '.err_returns_own_message_unqueued'] = z3.Implies(ret != 0, z3.And(ret == 1, cnt == 0))
            first = mb.pick_time(bmc, mb.first_event_nodes(trees[t], j), 0)
            for k, dl in enumerate(drain_last):
                claims[nm + '.refused_after_drain%d_returned' % k] = z3.Implies(z3.UGT(first, dl), ret == 1)
            if prev_pos is not None:
                claims[nm + '.program_order'] = z3.Implies(z3.And(prev_ok, ret == 0), z3.ULT(prev_pos, apos))
            prev_pos, prev_ok = apos, ret == 0
    return all_leaf, claims


def run_instance(ctx, prog, name, n_senders, n_msgs, n_drainers, rounds, loop_bound, status0=2):
    t0 = time.time()
    trees, meta, interps = build_threads(prog, n_senders, n_msgs, n_drainers, loop_bound, status0)
    for I in interps:
        ctx.absorb(I)
    order = list(range(len(trees)))
    if ctx.seed:
        import random
        random.Random(ctx.seed).shuffle(order)
    bmc = conc.BMC(mb.shared_objects(status0=status0, qcap=0), trees, rounds, order=order, no_spurious=(os.environ.get('VERIF_SPURIOUS', '0') != '1'))
    premise, claims = oracle(bmc, trees, meta)
    info = {'instance': name, 'threads': [tr.name for tr in trees], 'paths': [tr.paths for tr in trees], 'nodes': [len(tr.nodes) for tr in trees],
            'event_depth': [tr.max_event_depth() for tr in trees], 'rounds': rounds, 'slots': bmc.S, 'cas_unroll': loop_bound, 'unfold_s': round(time.time() - t0, 2)}
    ctx.extra.setdefault('instances', []).append(info)
    trunc_free = z3.And([z3.Not(bmc.at_leaf_kind(t, 'trunc')) for t in range(len(trees))])
    base = list(bmc.cons)   # after the oracle: lazily created ghost variables (execution flags / times) are defined in cons
    # vacuity witnesses
    w = ctx.witness(name + '.all_threads_can_finish', base + [premise, trunc_free], logic='QF_BV')
    if n_drainers:
        sends = [ident for m in meta if m['kind'] == 'sender' for ident in m['idents']]
        # a send admitted *after* a drainer closed admission is impossible, but a send racing with drain (ok and err) must exist
        ret0 = bmc.leaf_select(0, lambda leaf: z3.BitVecVal(leaf.data['send'], 4), z3.BitVecVal(15, 4))
        ctx.witness(name + '.a_send_is_refused', base + [premise, ret0 == 1], logic='QF_BV')
        ctx.witness(name + '.a_send_is_accepted', base + [premise, ret0 == 0], logic='QF_BV')
        # marker emitted by a sender's ticket drop (the interesting hand-over)
        sender_marker = [z3.And(bmc.executed[n], n.event.res['ok']) for t, m in enumerate(meta) if m['kind'] == 'sender' for n in mb.send_events([trees[t]], mb.MARKER)]
        if sender_marker:
            ctx.witness(name + '.marker_sent_by_last_ticket_holder', base + [premise, z3.Or(sender_marker)], logic='QF_BV')
    # obligations: premise => claim, one query per claim group (conjunction), then per claim on failure
    allc = z3.And(list(claims.values()))
    t1 = time.time()
    r, m = ctx.solve(base + [premise, trunc_free, z3.Not(allc)], logic='QF_BV')
    dt = time.time() - t1
    if r == 'unsat':
        for cn in claims:
            ctx.obligations.append({'name': '%s.%s' % (name, cn), 'group': 'C07.' + cn.split('.')[-1], 'status': 'proved', 'solver_s': round(dt / len(claims), 3)})
        ctx.samples.append({'instance': info, 'claims': list(claims)[:12], 'verdict': 'unsat (no schedule within the bound violates any claim)'})
    elif r == 'unknown':
        ctx.inconclusive.append('solver unknown on instance %s: %s' % (name, m))
    else:
        bad = [cn for cn, c in claims.items() if z3.is_false(m.eval(c, model_completion=True))]
        sched = bmc.schedule_from_model(m)
        rec = {'name': '%s.%s' % (name, bad[0] if bad else 'claims'), 'group': 'C07', 'status': 'cex', 'solver_s': round(dt, 3), 'violated': bad,
               'schedule': [(t, lbl) for (_, t, _, lbl, _) in sched]}
        ctx.handle_cex(rec['name'], 'C07.' + (bad[0].split('.')[-1] if bad else 'claims'), m,
                       lambda model: replay_schedule(name, n_senders, n_msgs, n_drainers, status0, sched, bad, trees, meta), rec)
        ctx.obligations.append(rec)
    # bound adequacy: can a CAS retry loop run out of unrollings?
    r2, m2 = ctx.solve(base + [z3.Or([bmc.at_leaf_kind(t, 'trunc') for t in range(len(trees))])], timeout_ms=60000, logic='QF_BV')
    info['truncated_leaf_reachable'] = r2
    return info


def replay_schedule(name, n_senders, n_msgs, n_drainers, status0, sched, bad, trees, meta):
    import mailbox_replay
    return mailbox_replay.replay('C07', n_senders, n_msgs, n_drainers, 0, status0, sched, bad)


def run(ctx):
    prog, info = mb.load()
    for fn in (SEND, DRAIN, 'ActorProperties::try_admit_message', 'ActorProperties::send_drain_marker', 'ActorProperties::close_message_admission',
               'ActorProperties::get_status', '<MessageAdmission as Drop>::drop'):
        b = prog.find_fn(fn)
        if b is None:
            raise Inconclusive('function not found in dump: ' + fn)
        ctx.encoded(prog, b)
    quick = ctx.tier == 'quick'
    ctx.bounds.update({
        'memory_model': 'sequential consistency at the granularity of the modelled operations (all cross-thread data flows through RMW operations on one word, '
                        'SeqCst status accesses and the channel)',
        'schedules': 'R round-robin rounds: every schedule with at most R-1 context switches at arbitrary points, and every schedule expressible as R passes in which each '
                     'thread runs any number of steps',
        'outside': 'more rounds / threads than instantiated; more CAS retries than the unroll bound (reported as truncated_leaf_reachable per instance); queue model capacity 8; '
                   'weak-memory effects below SC; tokio channel internals (FIFO contract trusted)'})
    ctx.assumptions += ['tokio unbounded mpsc: send fails returning the same value iff the receiver is closed/dropped, otherwise appends (FIFO)',
                        'atomics: each load/RMW/CAS is one atomic step; compare_exchange_weak may fail spuriously (free boolean)',
                        'user Message::box_message/from_boxed are opaque wrappers of the same message token (local actor, cannot fail)']
    insts = [('s2x2_d1_r2', 2, 2, 1, 2, 4)] if quick else [('s2x2_d1_r3', 2, 2, 1, 3, 5), ('s2x1_d2_r3', 2, 1, 2, 3, 5), ('s3x1_d1_r2', 3, 1, 1, 2, 5)]
    if os.environ.get('VERIF_C07_INST'):
        a = os.environ['VERIF_C07_INST'].split(',')
        insts = [(os.environ['VERIF_C07_INST'], int(a[0]), int(a[1]), int(a[2]), int(a[3]), int(a[4]))]
    for (name, ns, nm, nd, R, U) in insts:
        run_instance(ctx, prog, name, ns, nm, nd, R, U)


def replay_file(path):
    import json
    import mailbox_replay
    d = json.load(open(path))
    return mailbox_replay.replay_from_json(d)
