"""C07 - Drain processes everything accepted and admits nothing afterwards (concurrent mode of engine M)."""
import os
import time
import z3

import conc
import mailbox as mb
from exec import Inconclusive, State
from values import *
from framework import mval

SEND = mb.SEND
DRAIN = mb.DRAIN


def run(ctx):
    prog, info = mb.load()
    for fn in (SEND, mb.SEND_SERIALIZED, DRAIN, 'ActorProperties::try_admit_message', 'ActorProperties::send_drain_marker', 'ActorProperties::close_message_admission',
               'ActorProperties::get_status', '<MessageAdmission as Drop>::drop'):
        b = prog.find_fn(fn)
        if b is None:
            raise Inconclusive('function not found in dump: ' + fn)
        ctx.encoded(prog, b)
    quick = ctx.tier == 'quick'
    ctx.bounds.update({
        'memory_model': 'sequential consistency at the granularity of the modelled operations (all cross-thread data flows through RMW operations on one word, '
                        'SeqCst status accesses and the channel)',
        'schedules': 'R round-robin rounds: every schedule with at most R-1 context switches at arbitrary points, and every schedule expressible as R passes in which each '
                     'thread runs any number of steps',
        'outside': 'more rounds / threads than instantiated; more CAS retries than the unroll bound (reported as truncated_leaf_reachable per instance); queue model capacity 8; '
                   'weak-memory effects below SC; tokio channel internals (FIFO contract trusted)'})
    ctx.assumptions += ['tokio unbounded mpsc: send fails returning the same value iff the receiver is closed/dropped, otherwise appends (FIFO)',
                        'atomics: each load/RMW/CAS is one atomic step; compare_exchange_weak may fail spuriously (free boolean)',
                        'user Message::box_message/from_boxed are opaque wrappers of the same message token (local actor, cannot fail)']
    # name, senders, msgs per sender, drainers, rounds, CAS unroll, spurious weak-CAS failures explored
    if quick:
        insts = [('s2x1_d1_r2', 2, 1, 1, 2, 2, False), ('s1x1_d2_r2', 1, 1, 2, 2, 2, False), ('s1x2_d1_r2', 1, 2, 1, 2, 2, False), ('s2x1_d1_r2_ser', 2, 1, 1, 2, 2, False)]
    else:
        insts = [('s2x1_d1_r2', 2, 1, 1, 2, 2, False), ('s1x1_d2_r2', 1, 1, 2, 2, 2, False), ('s1x2_d1_r2', 1, 2, 1, 2, 2, False),
                 ('s2x1_d1_r3_u3', 2, 1, 1, 3, 3, False), ('s2x2_d1_r2', 2, 2, 1, 2, 2, False), ('s2x1_d2_r2', 2, 1, 2, 2, 2, False),
                 ('s3x1_d1_r2', 3, 1, 1, 2, 2, False), ('s2x1_d1_r2_spurious', 2, 1, 1, 2, 3, True), ('s1x1_d2_r3_spurious', 1, 1, 2, 3, 3, True), ('s2x1_d1_r2_ser', 2, 1, 1, 2, 2, False), ('s1x2_d1_r2_ser', 1, 2, 1, 2, 2, False)]
    if os.environ.get('VERIF_C07_INST'):
        a = os.environ['VERIF_C07_INST'].split(',')
        insts = [(os.environ['VERIF_C07_INST'], int(a[0]), int(a[1]), int(a[2]), int(a[3]), int(a[4]), len(a) > 5 and a[5] == '1')]
    ctx.bounds['instances'] = [dict(zip(('name', 'senders', 'msgs', 'drainers', 'rounds', 'cas_unroll', 'spurious'), i)) for i in insts]
    ctx.parallel(run_instance_job, [i for i in insts])
    # the public wrapper is the mailbox operation: called once, verdict unchanged
    import C02_wrappers
    import lifecycle as lc_
    C02_wrappers.check_drain(ctx, lc_.load()[0])
    # loop side: the dequeued marker ends the loop with reason "Drained" (sequential, real process_message of each runtime)
    import C02_dequeue
    import C02_dequeue_replay
    import lifecycle as lc
    lprog = lc.load()[0]
    dq = C02_dequeue.instances(ctx.tier)
    for rt in sorted({i[0] for i in dq}):
        b = lprog.find_fn('%s::<TActor>::process_message' % rt)
        if b is None:
            raise Inconclusive('function not found in dump: %s::process_message' % rt)
        ctx.encoded(lprog, b)
    ctx.bounds['loop_side'] = {'instances': [dict(zip(('runtime', 'poll_budget'), i)) for i in dq],
                               'scope': 'one process_message iteration from an arbitrary loop-head state (symbolic ports: marker, plain or serialized message at the head of the queue; kill possible at every poll)',
                               'outside': 'propagation of the loop exit reason to the terminal supervision event is the lifecycle check (C04); observed natively here (battery)'}
    ctx.parallel(C02_dequeue.drain_job, dq)
    try:
        res = C02_dequeue_replay.battery()
        ctx.translator_validated += len(res)
        bad = [r for r in res if r['violated']]
        ctx.extra['loop_native_battery'] = res
        if bad:
            rec = {'name': 'loop.native_battery', 'group': 'C07.loop', 'solver_s': 0.0, 'status': 'cex'}
            ctx.obligations.append(rec)
            ctx.handle_cex(rec['name'], 'C07.loop.native', None, lambda _m: {'replayed': True, 'detail': 'real actor with sender threads: %s' % bad[:3], 'replay': {'which': 'dequeue'}}, rec)
    except RuntimeError as e:
        ctx.inconclusive.append('loop-side native battery unavailable: %s' % str(e)[-300:])


def run_instance_job(sub, name, ns, nm, nd, R, U, spurious):
    prog, info = mb.load()
    # instances whose name ends in _ser: the last sender delivers through send_serialized (the entry point remote nodes use)
    mb.run_instance(sub, 'C07', prog, name, ns, nm, nd, 0, R, U, spurious=spurious, serialized=(ns - 1,) if name.endswith('_ser') else ())


def replay_file(path):
    import json
    import mailbox_replay
    d = json.load(open(path))
    if (d.get('replay') or {}).get('which') == 'dequeue':
        import C02_dequeue_replay
        return C02_dequeue_replay.replay_from_json(d)
    return mailbox_replay.replay_from_json(d)
