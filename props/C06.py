"""C06 - Shutdown waits are accurate and never miss the wake-up (concurrent mode).

Exiter = the real `ActorLifecycleGuard::cleanup` (-> ActorCell::set_status -> ActorProperties::set_status / notify_stop_listener);
the registry / pg / supervision subsystems it calls are abstracted to *flag events* (they are the subject of C05/C10/C11).
Waiters = the lowered `ActorProperties::wait()` coroutine driven by a poll-when-woken loop.
"""
import os
import re
import time
import z3

import conc
import mailbox as mb
import mirdump
import models_std
import models_sync
import objects
from exec import Interp, State, Outcome, Inconclusive, Unmodelled
from values import *

FLAGS = {'unregister_pid': 0, 'unregister_name': 1, 'pg_demonitor_all': 2, 'pg_leave_all': 3, 'children_terminated': 4, 'supervisor_notified': 5, 'unlinked': 6}
ALL_FLAGS = (1 << len(FLAGS)) - 1
CLEANUP = 'ActorLifecycleGuard::cleanup'
CELL_SET_STATUS = 'ActorCell::set_status'
WAIT = 'ActorProperties::wait'


def new_interp(prog, waiter_index=0):
    I = Interp(prog, mode='bv', loop_bound=4)
    models_std.install(I)
    models_sync.install(I)
    models_sync.install_notify(I)
    I.waiter_index = waiter_index
    I.objinfo = {'status': {'name': 'status'}, 'notify': {'name': 'wait_handler'}, 'flags': {'name': 'flags'}, 'adm': {'name': 'message_admission'}, 'msgq': {'name': 'message'}}
    I.hooks['chan_ident'] = lambda I, st, o, v: mb.MARKER

    def flag(name):
        bit = FLAGS[name]

        def fn(I, st, f, args, fr):
            I.shared_op(st, Obj('reg', 'flags'), 'set_' + name, objects.reg_rmw(lambda v: (v | (1 << bit), {'old': v})), {'old': 8}, label='flag.' + name, info=name)
            return I.ret(st, UNIT)
        return fn
    ov = I.override
    ov.append((re.compile(r'(^|::)unregister_pid$'), flag('unregister_pid')))
    ov.append((re.compile(r'(^|::)pid_registry::demonitor$'), lambda I, st, f, a, fr: I.ret(st, UNIT)))
    ov.append((re.compile(r'(^|::)unregister::<'), flag('unregister_name')))
    ov.append((re.compile(r'(^|::)demonitor_all$'), flag('pg_demonitor_all')))
    ov.append((re.compile(r'(^|::)leave_all$'), flag('pg_leave_all')))
    ov.append((re.compile(r'^ActorCell::terminate$'), flag('children_terminated')))
    ov.append((re.compile(r'^ActorCell::notify_supervisor$'), flag('supervisor_notified')))
    ov.append((re.compile(r'^ActorCell::unlink$'), flag('unlinked')))
    ov.append((re.compile(r'^ActorCell::try_get_supervisor$'), lambda I, st, f, a, fr: I.ret(st, models_std.some(Opaque('supervisor-cell', ident='sup')))))
    return I


def cell_value(prog, I, st):
    sd = prog.crate.struct('ActorProperties')
    if not sd or not {'status', 'wait_handler', 'name', 'id'} <= set(sd['fields']):
        raise Inconclusive('ActorProperties fields changed')
    f = {n: Opaque('props.' + n, ident='props.' + n) for n in sd['fields']}
    f['status'] = Obj('atomic', 'status', 'u8')
    f['wait_handler'] = Obj('notify', 'notify')
    f['message_admission'] = Obj('atomic', 'adm', 'usize')
    f['message'] = Obj('chan', 'msgq', 'tx')
    f['name'] = models_std.some(Str('the-actor'))
    f['id'] = Enum('ActorId', 'Local', 0, (I.mk_int(7, 'u64'),))
    pcell = st.alloc(Agg('ActorProperties', [f[n] for n in sd['fields']]))
    cd = prog.crate.struct('ActorCell')
    if not cd or cd['fields'] != ['inner']:
        raise Inconclusive('ActorCell fields changed')
    return Agg('ActorCell', (BoxV(pcell, 'Arc'),)), pcell


def exiter_tree(prog, tid, kind):
    I = new_interp(prog)
    I.hooks['chan_never_closed'] = {'msgq'}

    def pre(I, st):
        # the actor task publishes Stopping itself (processing_loop) before the guard's cleanup does it again
        cellv, pcell = cell_value(prog, I, st)
        c = st.alloc(cellv)
        stopping = Enum('ActorStatus', 'Stopping', 5, ())
        return mb.run_calls(I, st, [('set_status_stopping', CELL_SET_STATUS, lambda s: [Ref(c, ()), stopping])])

    def drainer(I, st):
        cellv, pcell = cell_value(prog, I, st)
        return mb.run_calls(I, st, [('drain', mb.DRAIN, lambda s: [Ref(pcell, ())])])

    def program(I, st):
        cellv, pcell = cell_value(prog, I, st)
        if kind == 'cleanup':
            gd = prog.crate.struct('ActorLifecycleGuard')
            if not gd or sorted(gd['fields']) != ['actor', 'armed', 'notify_on_cancel']:
                raise Inconclusive('ActorLifecycleGuard fields changed')
            vals = {'actor': cellv, 'armed': z3.BoolVal(True), 'notify_on_cancel': z3.BoolVal(True)}
            g = st.alloc(Agg('ActorLifecycleGuard', [vals[n] for n in gd['fields']]))
            ev = models_std.some(Opaque('SupervisionEvent', ident='terminal-event'))
            return mb.run_calls(I, st, [('cleanup', CLEANUP, lambda s: [Ref(g, (), True), ev])])
        raise Inconclusive('unknown exiter kind')
    def starter(j):
        def prog_j(I, st):
            cellv, pcell = cell_value(prog, I, st)
            c = st.alloc(cellv)
            target = [Enum('ActorStatus', 'Starting', 1, ()), Enum('ActorStatus', 'Running', 2, ())][j]
            return mb.run_calls(I, st, [('set_status_%d' % j, CELL_SET_STATUS, lambda s: [Ref(c, ()), target])], call_base=j)
        return prog_j
    if kind == 'start':
        tr = conc.unfold(I, 'starter', tid, State, [starter(0), starter(1)], lambda s, k, r, seg: {'kind': k})
    elif kind == 'drain':
        tr = conc.unfold(I, 'drainer', tid, State, drainer, lambda s, k, r, seg: {'kind': k})
    else:
        tr = conc.unfold(I, 'exiter', tid, State, [pre, program], lambda s, k, r, seg: {'kind': k})
    return tr, I


def waiter_tree(prog, tid, windex, max_polls=3):
    I = new_interp(prog, windex)
    body = prog.find_fn(WAIT)
    if body is None:
        raise Inconclusive('wait() not found')

    def program(I, st):
        cellv, pcell = cell_value(prog, I, st)
        outs = I.run_body(st, body, [Ref(pcell, ())])
        if len(outs) != 1 or not isinstance(outs[0].val, Coro):
            raise Inconclusive('wait() did not return a coroutine: %r' % (outs,))
        coro = outs[0].val
        st = outs[0].st
        pollfn = prog.bodies.get(coro.defname)
        if pollfn is None:
            raise Inconclusive('poll function of wait() not found: ' + coro.defname)
        I.stats['calls_inlined'].add(pollfn.name)
        ccell = st.alloc(coro)
        done = []
        frontier = [st]
        for k in range(max_polls):
            nxt = []
            for s in frontier:
                for o in I.run_body(s, pollfn, [Agg('Pin', (Ref(ccell, (), True),)), Opaque('Context')]):
                    if o.kind != 'ret':
                        done.append((o.st, o.kind, None))
                        continue
                    if o.val.variant == 'Ready':
                        # wait() returned: observe the world (two reads, both monotone objects)
                        r1 = I.shared_op(o.st, Obj('reg', 'flags'), 'observe_flags', objects.reg_rmw(lambda v: (v, {'old': v})), {'old': 8}, label='observe.flags')
                        r2 = I.shared_op(o.st, Obj('atomic', 'status'), 'observe_status', objects.atomic_rmw(lambda w: (w, {'old': w})), {'old': 8}, label='observe.status')
                        done.append((o.st, 'ret', {'flags': r1['old'], 'status': r2['old'], 'polls': k + 1}))
                    else:
                        # parked until woken
                        I.shared_op(o.st, Obj('notify', 'notify'), 'park', objects.notify_wait_wake(windex), {}, label='wait_handler.park', info=('park', windex))
                        nxt.append(o.st)
            frontier = nxt
        for s in frontier:
            done.append((s, 'trunc', None))
        return done
    tr = conc.unfold(I, 'waiter%d' % windex, tid, State, program, lambda s, k, r, seg: {'kind': k, 'obs': r})
    return tr, I


def run_instance(ctx, prog, name, n_waiters, second_writer, rounds, status0=2):
    t0 = time.time()
    trees, interps, meta = [], [], []
    start_mode = n_waiters == 0
    if start_mode:
        status0 = 0
    tr, I = exiter_tree(prog, 0, 'start' if start_mode else 'cleanup')
    trees.append(tr); interps.append(I); meta.append('starter' if start_mode else 'exiter')
    if second_writer:
        tr, I = exiter_tree(prog, len(trees), 'drain')
        trees.append(tr); interps.append(I); meta.append('drainer')
    for w in range(n_waiters):
        tr, I = waiter_tree(prog, len(trees), w)
        trees.append(tr); interps.append(I); meta.append('waiter')
    for I in interps:
        ctx.absorb(I)
    objs = {'status': ('atomic', objects.atomic_init(8, status0), {'bits': 8}),
            'notify': ('notify', objects.notify_init(n_waiters), {'nwaiters': n_waiters}),
            'flags': ('reg', objects.reg_init(8, 0), {'bits': 8}),
            'adm': ('atomic', objects.atomic_init(64, 0), {'bits': 64}),
            'msgq': ('chan', objects.chan_init(0), {'cap': 0})}
    order = list(range(len(trees)))
    if ctx.seed:
        import random
        random.Random(ctx.seed).shuffle(order)
    bmc = conc.BMC(objs, trees, rounds, order=order, no_spurious=True)
    T = len(trees)
    writers_done = z3.And([bmc.finished(t, ('ret',)) for t in range(T) if meta[t] != 'waiter'])
    claims = {}
    # safety: a returned waiter saw everything done
    for t in range(T):
        if meta[t] != 'waiter':
            continue
        fl = bmc.leaf_select(t, lambda leaf: leaf.data['obs']['flags'] if leaf.data.get('obs') else None, z3.BitVecVal(ALL_FLAGS, 8))
        stt = bmc.leaf_select(t, lambda leaf: leaf.data['obs']['status'] if leaf.data.get('obs') else None, z3.BitVecVal(6, 8))
        claims['w%d.returns_only_after_full_stop' % t] = z3.Implies(bmc.finished(t, ('ret',)), z3.And(stt == 6, fl == ALL_FLAGS))
        # liveness at quiescence: once every status writer has finished, a waiter sitting at a park node must be wakeable
        fin = bmc.final_state('notify')
        parks = [n for n in trees[t].event_nodes() if n.event.opname == 'park']
        stuck = []
        for n in parks:
            en, _, _ = n.event.op(fin)
            stuck.append(z3.And(bmc.final_pos(t) == n.idx, z3.Not(en)))
        claims['w%d.never_parked_forever' % t] = z3.Implies(writers_done, z3.Not(z3.Or(stuck)) if stuck else z3.BoolVal(True))
    # once: every cleanup action / wake-up is performed exactly once over all status writers
    for fname in FLAGS:
        nodes = [n for tr in trees for n in tr.event_nodes() if n.event.info == fname]
        if not start_mode:
            claims['once.' + fname] = z3.Implies(writers_done, mb.count_true([bmc.executed[n] for n in nodes]) == 1)
    nw = [n for tr in trees for n in tr.event_nodes() if n.event.opname == 'notify_waiters']
    if not start_mode:
        claims['once.notify_waiters'] = z3.Implies(writers_done, mb.count_true([bmc.executed[n] for n in nw]) == 1)
    # monotone status
    chain = bmc.state['status']
    claims['status_never_decreases'] = z3.And([z3.UGE(chain[i + 1]['w'], chain[i]['w']) for i in range(len(chain) - 1)])
    if start_mode:
        claims['final_status_draining'] = z3.Implies(writers_done, bmc.final_state('status')['w'] == 4)
    else:
        claims['final_status_stopped'] = z3.Implies(writers_done, bmc.final_state('status')['w'] == 6)
    claims['no_thread_panics'] = z3.And([z3.Not(bmc.at_leaf_kind(t, 'unwind')) for t in range(T)])
    info = {'instance': name, 'threads': [tr.name for tr in trees], 'paths': [tr.paths for tr in trees], 'nodes': [len(tr.nodes) for tr in trees],
            'event_depth': [tr.max_event_depth() for tr in trees], 'rounds': rounds, 'slots': bmc.S, 'unfold_s': round(time.time() - t0, 2)}
    ctx.extra.setdefault('instances', []).append(info)
    trunc_free = z3.And([z3.Not(bmc.at_leaf_kind(t, 'trunc')) for t in range(T)])
    base = list(bmc.cons)
    waiters = [t for t in range(T) if meta[t] == 'waiter']
    ctx.witness(name + '.everyone_finishes', base + [writers_done] + [bmc.finished(t, ('ret',)) for t in waiters], logic='QF_BV')
    if waiters:
        w0 = waiters[0]
        polls0 = bmc.leaf_select(w0, lambda leaf: z3.BitVecVal(leaf.data['obs']['polls'], 4) if leaf.data.get('obs') else None, z3.BitVecVal(0, 4))
        ctx.witness(name + '.waiter_parks_then_is_woken', base + [writers_done, bmc.finished(w0, ('ret',)), polls0 == 2], logic='QF_BV')
        ctx.witness(name + '.late_waiter_returns_without_parking', base + [writers_done, bmc.finished(w0, ('ret',)), polls0 == 1], logic='QF_BV')
    else:
        # drain lands between the two start-up transitions
        chain_w = bmc.state['status']
        ctx.witness(name + '.drain_between_starting_and_running', base + [writers_done, z3.Or([z3.And(chain_w[i]['w'] == 1, chain_w[i + 1]['w'] == 4) for i in range(len(chain_w) - 1)])], logic='QF_BV')
    allc = z3.And(list(claims.values()))
    t1 = time.time()
    r, m = ctx.solve(base + [trunc_free, z3.Not(allc)], logic='QF_BV')
    dt = time.time() - t1
    info['main_query_s'] = round(dt, 1)
    if r == 'unsat':
        for cn in claims:
            ctx.obligations.append({'name': '%s.%s' % (name, cn), 'group': 'C06.' + cn.split('.')[-1], 'status': 'proved', 'solver_s': round(dt / len(claims), 3)})
        ctx.samples.append({'instance': info, 'claims': list(claims), 'verdict': 'unsat: no schedule within the bound violates any claim'})
    elif r == 'unknown':
        ctx.inconclusive.append('solver unknown on instance %s: %s' % (name, m))
    else:
        bad = [cn for cn, c in claims.items() if z3.is_false(m.eval(c, model_completion=True))]
        sched = bmc.schedule_from_model(m)
        rec = {'name': '%s.%s' % (name, bad[0] if bad else 'claims'), 'group': 'C06', 'status': 'cex', 'solver_s': round(dt, 3), 'violated': bad,
               'schedule': [(t, lbl) for (_, t, _, lbl, _) in sched]}

        def on_cex(model):
            import C06_replay
            return C06_replay.replay(n_waiters, second_writer, status0, sched, bad, meta)
        ctx.handle_cex(rec['name'], 'C06.' + (bad[0].split('.')[-1] if bad else 'claims'), m, on_cex, rec)
        ctx.obligations.append(rec)
    r2, _ = ctx.solve(base + [z3.Or([bmc.at_leaf_kind(t, 'trunc') for t in range(T)])], timeout_ms=60000, logic='QF_BV')
    info['truncated_leaf_reachable'] = r2


def job(sub, name, nw, second, R):
    prog, info = mb.load()
    run_instance(sub, prog, name, nw, second, R)


def run(ctx):
    prog, info = mb.load()
    for fn in (CLEANUP, CELL_SET_STATUS, 'ActorProperties::set_status', 'ActorProperties::notify_stop_listener', WAIT, 'ActorProperties::get_status'):
        b = prog.find_fn(fn)
        if b is None:
            raise Inconclusive('function not found in dump: ' + fn)
        ctx.encoded(prog, b)
    ctx.bounds.update({'schedules': 'R round-robin rounds', 'waiter_polls': 3,
                       'outside': 'more waiters / rounds than instantiated; what registry, pg and supervision clean-up actually do (flag events here; see C05, C10, C11); '
                                  'tokio Notify internals (documented contract trusted); timeouts of wait(timeout) (sequential check, not built yet)'})
    ctx.assumptions += ['tokio Notify contract: notified() snapshots the notify_waiters generation and is woken by any later notify_waiters even if not yet polled; '
                        'notify_one wakes one registered waiter or stores a single permit; the first poll consumes a stored permit, otherwise registers',
                        'registry::unregister, pid_registry::{demonitor,unregister_pid}, pg::{demonitor_all,leave_all}, ActorCell::{terminate,notify_supervisor,unlink} '
                        'are abstracted as monotone flag events; try_get_supervisor returns Some (so that the unlink step is exercised)']
    if ctx.tier == 'quick':
        insts = [('w2_r2', 2, False, 2), ('w1_x2_r2', 1, True, 2), ('start_vs_drain_r2', 0, True, 2)]
    else:
        insts = [('w2_r2', 2, False, 2), ('w1_x2_r2', 1, True, 2), ('w2_x2_r2', 2, True, 2), ('w3_r2', 3, False, 2), ('w2_r3', 2, False, 3), ('w3_x2_r3', 3, True, 3), ('start_vs_drain_r3', 0, True, 3)]
    if os.environ.get('VERIF_C06_INST'):
        a = os.environ['VERIF_C06_INST'].split(',')
        insts = [(os.environ['VERIF_C06_INST'], int(a[0]), a[1] == '1', int(a[2]))]
    ctx.bounds['instances'] = [dict(zip(('name', 'waiters', 'second_status_writer', 'rounds'), i)) for i in insts]
    ctx.parallel(job, insts)
    # the public wrappers around the waiter (sequential: the inner wait is the environment)
    import lifecycle as lc
    import C06_wrappers
    import C06_wrappers_replay
    C06_wrappers.check(ctx, lc.load()[0])
    try:
        bad, n = C06_wrappers_replay.battery()
        ctx.translator_validated += n
        if bad:
            rec = {'name': 'wrappers.native_battery', 'group': 'C06.wrappers', 'solver_s': 0.0, 'status': 'cex'}
            ctx.obligations.append(rec)
            ctx.handle_cex(rec['name'], 'C06.wrappers.native', None, lambda _m: {'replayed': True, 'detail': 'real wait wrappers: %s' % bad[:3], 'replay': {'which': 'wrappers'}}, rec)
    except RuntimeError as e:
        ctx.inconclusive.append('wrappers native battery unavailable: %s' % str(e)[-300:])
    # the exit clean-up reaches Stopped and wakes the waiters even when one of its steps unwinds (user Drop panics inside it)
    import C06_guard
    import C06_guard_replay
    C06_guard.check(ctx, lc.load()[0])
    try:
        res = C06_guard_replay.battery()
        ctx.translator_validated += len(res)
        badg = [r for r in res if r['violated']]
        ctx.extra['guard_native_battery'] = res
        if badg:
            rec = {'name': 'guard.native_battery', 'group': 'C06.guard', 'solver_s': 0.0, 'status': 'cex'}
            ctx.obligations.append(rec)
            ctx.handle_cex(rec['name'], 'C06.guard.native', None, lambda _m: {'replayed': True, 'detail': 'real actor whose final state panics on drop: %s' % badg[:3], 'replay': {'which': 'guard'}}, rec)
    except RuntimeError as e:
        ctx.inconclusive.append('guard native battery unavailable: %s' % str(e)[-300:])


def replay_file(path):
    import json
    import C06_replay
    d = json.load(open(path))
    if (d.get('replay') or {}).get('which') == 'guard':
        import C06_guard_replay
        return C06_guard_replay.replay_from_json(d)
    if (d.get('replay') or {}).get('which') == 'wrappers':
        import C06_wrappers_replay
        r = C06_wrappers_replay.replay()
        print(r['detail'])
        return 1 if r['replayed'] else 0
    return C06_replay.replay_from_json(d)
