"""C18, engine-M slice: what the node server does with the election's verdict (`<NodeServer as Actor>::handle`, arm ConnectionAuthenticated, with
`commit_authenticated` and the real `elect_sessions`): the losing duplicate connections are really closed, winners are not, and connections that
have not authenticated neither count nor get closed."""
import itertools
import z3

import cluster as cl
import lifecycle as lc
import lifeprops as lp
import models_std
import C17_gates as gates
from exec import State, Outcome, Inconclusive, Unmodelled
from values import *

FN = '<NodeServer as Actor>::handle'


def configs(tier):
    """(sessions [(is_server, nonce)], authenticated before, announcing)"""
    out = []
    nonces = (0, 7, 9)
    for srv in itertools.product((True, False), repeat=2):
        for nn in itertools.product(nonces, repeat=2):
            for before in ((), (1,)):
                out.append(([(srv[0], nn[0]), (srv[1], nn[1])], before, 2))
    if tier != 'quick':
        for srv in ((True, True, True), (False, False, False), (True, True, False)):
            for nn in ((0, 0, 0), (7, 7, 9), (7, 9, 7), (0, 7, 0)):
                for before in ((1,), (1, 2), (2,)):
                    out.append(([(srv[i], nn[i]) for i in range(3)], before, 3))
    return out


def check(ctx, prog):
    body = prog.find_fn(FN)
    if body is None:
        raise Inconclusive('NodeServer::handle not found')
    ctx.encoded(prog, body)
    for f in ('NodeServerState::commit_authenticated', 'elect_sessions'):
        b = prog.find_fn(f)
        if b is None:
            raise Inconclusive(f + ' not found')
        ctx.encoded(prog, b)
    seen = set()
    for (sess, before, ann) in configs(ctx.tier):
        I = gates.session_interp(prog, effects=False)
        st = State()
        n = len(sess)
        aid = lambda k: Enum('ActorId', 'Local', 0, (I.mk_int(k, 'u64'),))
        nm = lambda: models_std.some(cl.record(prog, 'NameMessage', 'out/auth.rs', name=Str('peer'), connection_id=I.mk_int(0, 'u64'), connection_string=Str('peer:1'), flags=models_std.NONE))
        info = lambda k: cl.record(prog, 'NodeServerSessionInformation', actor=Opaque('ActorRef', ident='sess%d' % k), peer_name=nm(), is_server=z3.BoolVal(sess[k - 1][0]),
                                   node_id=I.mk_int(100 + k, 'u64'), peer_addr=Str('addr%d' % k))
        cid = lambda v: models_std.NONE if v == 0 else models_std.some(I.mk_int(v, 'u64'))
        state = cl.record(prog, 'NodeServerState', node_sessions=Agg('HashMap', [Agg('()', (aid(k), info(k))) for k in range(1, n + 1)]),
                          authenticated_sessions=Agg('HashSet', [aid(k) for k in before]), subscriptions=Agg('HashMap', ()),
                          connection_ids=Agg('HashMap', [Agg('()', (aid(k), cid(sess[k - 1][1]))) for k in range(1, n + 1)]),
                          this_node_name=cl.record(prog, 'NameMessage', 'out/auth.rs', name=Str('this')))
        sc = st.alloc(state)
        msg = cl.variant(prog, 'NodeServerMessage', 'ConnectionAuthenticated', (aid(ann),))
        st, coro = lc.make_coro(I, st, prog, FN, [Ref(st.alloc(Opaque('NodeServer')), ()), Opaque('ActorRef', ident='myself'), msg, Ref(sc, (), True)])
        cc = st.alloc(coro)
        done = gates.drive(I, st, cc, 4)
        ctx.absorb(I)
        ctx.paths += len(done)
        tag = '%s.before%s.ann%d' % ('_'.join('%s%d' % ('S' if s_ else 'C', v) for s_, v in sess), ''.join(map(str, before)) or '-', ann)
        for k, (s, kind, v) in enumerate(done):
            name = 'server.%s.path%d' % (tag, k)
            rp = {'sessions': [[bool(a), int(b)] for a, b in sess], 'before': list(before), 'announcing': ann}
            cex = (lambda rp=rp: (lambda m: replay(rp)))()
            post = I.read(s, sc, ())
            after = set(z3.simplify(x.fields[0].t).as_long() for x in cl.field(prog, post, 'NodeServerState', 'authenticated_sessions').fields)
            stopped = [int(e[1].ident[4:]) for e in s.trace if e[0] == 'STOP' and isinstance(e[1], Opaque) and str(e[1].ident).startswith('sess')]
            cands = set(before) | {ann}
            claims = {'handler_completes': kind == 'ready',
                      'every_authenticated_duplicate_that_lost_is_closed': (cands - after) <= set(stopped),
                      'no_surviving_connection_is_closed': not (set(stopped) & after),
                      'nobody_is_closed_twice': len(stopped) == len(set(stopped)),
                      'unauthenticated_connections_are_neither_counted_nor_closed': set(stopped) <= cands and after <= cands,
                      'some_connection_survives': bool(after)}
            if cands - after:
                seen.add('loser_closed')
            if ann not in after:
                seen.add('announcing_session_lost')
            lp.record(ctx, name, s, claims, 'C18.server', sample={'sessions': rp['sessions'], 'authenticated_before': list(before), 'announcing': ann, 'authenticated_after': sorted(after), 'closed': stopped}
                      if len(ctx.samples) < 10 and (cands - after) else None, on_cex=cex)
    for w in ('loser_closed', 'announcing_session_lost'):
        ctx.note_witness('C18.server.' + w, w in seen)


_replayed = {}


def replay(rp):
    import json
    import C18_server_replay
    k = json.dumps(rp, sort_keys=True)
    if k not in _replayed:
        _replayed[k] = C18_server_replay.replay(rp)
    return _replayed[k]
