"""Trace oracles over the lifecycle exploration (lifetrace.py). Each oracle returns a list of (claim name, bool) for one path;
path conditions are irrelevant for these structural claims (every explored path is feasible: the executor only keeps branches
whose feasibility the solver confirmed), so each claim is recorded as an obligation `pc => claim`."""
import z3

from values import *

HANDLERS = ('handle', 'handle_supervisor_evt', 'handle_serialized')


def cb_events(trace):
    return [e for e in trace if e[0] == 'CB' and e[1] in ('start', 'end', 'cancelled')]


def order_claims(trace, complete):
    """C01"""
    ev = cb_events(trace)
    claims = {}
    active = None
    overlap = False
    mismatched = False
    for e in ev:
        if e[1] == 'start':
            if active is not None:
                overlap = True
            active = e[2]
        else:
            if active != e[2]:
                mismatched = True
            active = None
    claims['callbacks_never_overlap'] = not overlap and not mismatched
    starts = [e[2] for e in ev if e[1] == 'start']
    ends = {}
    for e in ev:
        if e[1] == 'end':
            ends.setdefault(e[2], []).append(e[4])
    claims['pre_start_first_and_once'] = (not starts) or (starts[0] == 'pre_start' and starts.count('pre_start') == 1)
    pre_ok = ends.get('pre_start', []) == ['ok']
    claims['post_start_at_most_once_after_pre_start_ok'] = starts.count('post_start') <= 1 and ('post_start' not in starts or pre_ok)
    post_ok = ends.get('post_start', []) == ['ok']
    claims['handlers_only_after_post_start_ok'] = all(s not in HANDLERS for s in starts) or post_ok
    # order: nothing handler-like before post_start finished
    idx_post_end = next((i for i, e in enumerate(ev) if e[1] == 'end' and e[2] == 'post_start'), None)
    first_handler = next((i for i, e in enumerate(ev) if e[1] == 'start' and e[2] in HANDLERS), None)
    if first_handler is not None:
        claims['handlers_only_after_post_start_ok'] = claims['handlers_only_after_post_start_ok'] and idx_post_end is not None and idx_post_end < first_handler
    claims['post_stop_at_most_once'] = starts.count('post_stop') <= 1
    if 'post_stop' in starts:
        i = max(i for i, e in enumerate(ev) if e[1] == 'start' and e[2] == 'post_stop')
        claims['post_stop_after_last_handler'] = all(not (e[1] == 'start' and e[2] != 'post_stop') for e in ev[i + 1:])
    exits = [e[1] for e in trace if e[0] == 'LOOPEXIT']
    if complete and any(e[0] == 'START_OK' for e in trace):
        graceful = exits == ['stop']
        # a kill that arrives while post_start is still running ends the actor before the loop: no post_stop either
        claims['post_stop_iff_graceful_exit'] = ('post_stop' in starts) == graceful
    return claims


def terminal_claims(trace, complete, linked):
    """C04 (the supervisor `sup` is linked on every START_OK path of the instance)"""
    claims = {}
    evs = [e for e in trace if e[0] == 'SUPEVT']
    kinds = [e[1] for e in evs]
    started_ok = any(e[0] == 'START_OK' for e in trace)
    ev = cb_events(trace)
    ends = {}
    for e in ev:
        if e[1] == 'end':
            ends.setdefault(e[2], []).append(e[4])
    if not started_ok:
        claims['failed_start_emits_no_event'] = kinds == []
        return claims
    if not linked:
        claims['no_supervisor_no_event'] = kinds == []
        return claims
    post_ok = ends.get('post_start', []) == ['ok']
    claims['actor_started_once_iff_post_start_ok'] = kinds.count('ActorStarted') == (1 if post_ok else 0)
    terminal = [k for k in kinds if k in ('ActorTerminated', 'ActorFailed')]
    aborted = any(e[0] == 'TASK_ABORTED' for e in trace)
    if complete and aborted:
        # the task future was dropped at a suspension point: exactly one terminal event, the cancellation event
        claims['cancelled_task_reports_exactly_one_terminal_event'] = len(terminal) == 1
        if len(terminal) == 1:
            d = evs[-1][2] if evs[-1][1] == 'ActorTerminated' else None
            claims['cancellation_event_shape'] = (terminal[0] == 'ActorTerminated' and kinds[-1] == 'ActorTerminated' and d is not None and isinstance(d[0], Enum) and d[0].variant == 'None'
                                                 and isinstance(d[1], Enum) and d[1].variant == 'Some' and isinstance(d[1].fields[0], Str) and d[1].fields[0].s == 'actor_task_cancelled')
        return claims
    if complete:
        claims['exactly_one_terminal_event'] = len(terminal) == 1
        claims['terminal_event_is_last'] = bool(kinds) and kinds[-1] in ('ActorTerminated', 'ActorFailed')
        if 'ActorStarted' in kinds:
            claims['started_before_terminal'] = kinds.index('ActorStarted') < len(kinds) - 1
        failures = [(n, o) for n, outs in ends.items() for o in outs if o in ('err', 'panic') and n != 'pre_start']
        exits = [e[1] for e in trace if e[0] == 'LOOPEXIT']
        decode_fail = exits and exits[-1] in ('err', 'panic') and not failures
        failed = bool(failures) or bool(decode_fail)
        if len(terminal) == 1:
            claims['classification'] = terminal[0] == ('ActorFailed' if failed else 'ActorTerminated')
            if terminal[0] == 'ActorTerminated':
                detail = evs[-1][2]
                state, reason = detail[0], detail[1]
                graceful = exits == ['stop'] and ends.get('post_stop', []) == ['ok']
                if graceful:
                    claims['graceful_exit_carries_state_and_reason'] = (isinstance(state, Enum) and state.variant == 'Some' and isinstance(reason, Enum) and reason.variant == 'Some'
                                                                          and isinstance(reason.fields[0], Opaque) and reason.fields[0].ident == 'the-exit-reason')
                else:
                    where = 'kill_in_message_loop' if exits == ['killed'] else 'kill_during_lifecycle_hook'
                    claims[where + '_reports_no_state_and_killed'] = (isinstance(state, Enum) and state.variant == 'None' and isinstance(reason, Enum) and reason.variant == 'Some'
                                                                   and isinstance(reason.fields[0], Str) and reason.fields[0].s == 'killed')
    else:
        claims['at_most_one_terminal_event'] = len(terminal) <= 1
    return claims


def failed_spawn_claims(I, a, st, trace, named):
    """C08 for a path on which start returned Err"""
    claims = {}
    ev = cb_events(trace)
    starts = [e[2] for e in ev if e[1] == 'start']
    claims['no_callback_other_than_pre_start'] = all(s == 'pre_start' for s in starts) and len(starts) <= 1
    claims['status_stopped'] = z3.is_true(z3.simplify(a.status(st) == 6))
    claims['waiters_released'] = z3.is_true(z3.simplify(st.objs['a_notify']['gen'] != 0))
    fx = [e[1] for e in trace if e[0] == 'FX']
    need = ['unregister_pid', 'pg_demonitor_all', 'pg_leave_all', 'ports_closed_and_flushed'] + (['unregister_name'] if named else [])
    claims['registries_and_groups_released'] = all(n in fx for n in need)
    claims['no_supervision_event'] = not [e for e in trace if e[0] == 'SUPEVT']
    if a.sup_cell is not None:
        claims['not_linked_to_supervisor'] = (not a.supervisor_of_a(st)) and (not a.child_of_sup(st))
    if getattr(a, 'obs_cell', None) is not None:
        claims['not_linked_to_observer'] = not a.child_of_obs(st)
    claims['children_set_closed'] = st.cells[st.ghost[('mutex_inner', 'a_children')]].variant == 'None'
    return claims
