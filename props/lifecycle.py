"""Shared set-up for the sequential lifecycle checks (C01, C03, C04, C08, C09, C12): an ActorPortSet whose four ports are
local objects with *symbolic readiness*, opaque user callbacks, and helpers to drive crate coroutines."""
import os
import re
import z3

import mirdump
import models_std
import models_sync
import models_ctor
import models_coll
import models_async
import objects
from exec import Interp, State, Outcome, Inconclusive, Unmodelled
from values import *

FEATURES = ('cluster',)
PORTS = ('sigq', 'stopq', 'supq', 'msgq')


def load():
    return mirdump.load('ractor', features=FEATURES)


def new_interp(prog, poll_budget=1, loop_bound=6):
    I = Interp(prog, mode='bv', loop_bound=loop_bound)
    models_std.install(I)
    models_sync.install(I)
    models_sync.install_notify(I)
    models_ctor.install(I)
    models_coll.install(I)
    models_async.install(I, poll_budget)
    I.objinfo = {'sigq': {'name': 'signal'}, 'stopq': {'name': 'stop'}, 'supq': {'name': 'supervision'}, 'msgq': {'name': 'message'}}

    def chan_value(I, st, o, idterm):
        if o.oid == 'sigq':
            return [(st, Enum('Signal', 'Kill', 0, ()))]
        if o.oid == 'stopq':
            s2 = st.fork()
            return [(st, Enum('StopMessage', 'Stop', 0, ())), (s2, Enum('StopMessage', 'Reason', 1, (Opaque('stop-reason', ident='the-stop-reason'),)))]
        if o.oid == 'supq':
            return [(st, Opaque('SupervisionEvent', info=idterm))]
        if o.oid == 'msgq':
            bd = prog.crate.struct('BoxedMessage')
            if not bd or not {'msg'} <= set(bd['fields']):
                raise Inconclusive('BoxedMessage fields changed')

            def boxed(serialized):
                f = {'msg': models_std.NONE if serialized else models_std.some(Opaque('dyn-msg', info=idterm)),
                     'serialized_msg': models_std.some(Opaque('SerializedMessage', info=idterm)) if serialized else models_std.NONE,
                     'span': models_std.NONE}
                return Agg('BoxedMessage', [f[k] for k in bd['fields']])
            s2 = st.fork()
            res = [(st, Enum('MuxedMessage', 'Drain', 0, ())), (s2, Enum('MuxedMessage', 'Message', 1, (boxed(False),)))]
            if 'serialized_msg' in bd['fields']:
                s3 = s2.fork()
                s3.emit('MSGKIND', 'serialized', idterm)
                res.append((s3, Enum('MuxedMessage', 'Message', 1, (boxed(True),))))
            st.emit('MSGKIND', 'marker', idterm)
            s2.emit('MSGKIND', 'plain', idterm)
            return res
        return [(st, Opaque('received', info=idterm))]
    I.hooks['chan_value'] = chan_value

    def late_arrival(I, st, o):
        # the ports are fed by other threads: an explicit non-blocking read (try_recv) that follows an earlier look at the same port within one poll may find
        # an item that was not there before. Nothing arrives once the receiver has closed the port (the flush in ActorPortSet::drop).
        cur = st.objs.get(o.oid)
        if cur is None or o.oid not in PORTS:
            return
        late = I.fresh_bool('late_%s' % o.oid)
        ns = dict(cur)
        if o.oid in ('sigq', 'stopq'):
            cond = z3.And(late, cur['st'] == 0, z3.Not(cur['txdrop']), z3.Not(cur['rxclosed']))
            ns['st'] = z3.If(cond, z3.BitVecVal(1, 2), cur['st'])
            ns['val'] = z3.If(cond, z3.BitVec('late_%s_val_%d' % (o.oid, len(st.trace)), objects.ID_BITS), cur['val'])
            ns['txdrop'] = z3.Or(cur['txdrop'], cond)
        else:
            cond = z3.And(late, cur['len'] == 0, z3.Not(cur['closed']), z3.Not(cur['rxdrop']))
            ns['len'] = z3.If(cond, z3.BitVecVal(1, 8), cur['len'])
            ns['c0'] = z3.If(cond, z3.BitVec('late_%s_c0_%d' % (o.oid, len(st.trace)), objects.ID_BITS), cur['c0'])
        st.objs[o.oid] = ns
    I.hooks['late_arrival'] = late_arrival

    # `signal.to_string()` - the text comes from `impl Display for Signal` (read from the source on every run)
    src = open(os.path.join(mirdump.REPO, 'ractor', 'src', 'actor', 'messages.rs')).read()
    mm = re.search(r'impl\s+(?:std::fmt::)?Display\s+for\s+Signal\s*\{.*?Self::Kill\s*=>\s*\{?\s*write!\(\s*f\s*,\s*"([^"]*)"\s*\)', src, re.S)
    kill_text = mm.group(1) if mm else None

    def m_signal_to_string(I, st, f, args, fr):
        v = models_std.deref_val(I, st, args[0])
        if kill_text is None or not (isinstance(v, Enum) and v.variant == 'Kill'):
            return NotImplemented
        I.stats['models_used'].add('Signal::to_string (text of the Display impl, read from messages.rs)')
        return I.ret(st, Str(kill_text))
    I.override.append((re.compile(r'^<(\w+::)*Signal as ToString>::to_string$'), m_signal_to_string))
    return I


def symbolic_ports(I, st, tag=''):
    """install the four port objects with symbolic contents; returns dict of the initial state terms"""
    init = {}
    for q in ('sigq', 'stopq'):
        full = z3.Bool('%s_%s_full' % (tag, q))
        txdrop = z3.Bool('%s_%s_txdrop' % (tag, q))
        val = z3.BitVec('%s_%s_val' % (tag, q), objects.ID_BITS)
        st.objs[q] = {'st': z3.If(full, z3.BitVecVal(1, 2), z3.BitVecVal(0, 2)), 'val': val, 'txdrop': z3.Or(txdrop, full), 'rxclosed': z3.BoolVal(False)}
        init[q] = {'full': full, 'txdrop': txdrop, 'ready': z3.Or(full, txdrop)}
    for q in ('supq', 'msgq'):
        has = z3.Bool('%s_%s_has' % (tag, q))
        closed = z3.Bool('%s_%s_closed' % (tag, q))
        c0 = z3.BitVec('%s_%s_c0' % (tag, q), objects.ID_BITS)
        st.objs[q] = {'len': z3.If(has, z3.BitVecVal(1, 8), z3.BitVecVal(0, 8)), 'total': z3.BitVecVal(0, 8), 'closed': closed, 'rxdrop': z3.BoolVal(False),
                      'c0': c0, 'c1': z3.BitVecVal(0, objects.ID_BITS)}
        init[q] = {'has': has, 'closed': closed, 'ready': z3.Or(has, closed), 'c0': c0}
    init['_snapshot'] = {q: dict(st.objs[q]) for q in PORTS}
    return init


def refresh_ports(I, st, tag):
    """new arbitrary port contents (what senders / stoppers / killers / children may have done since the last poll); a oneshot that was
    already consumed stays consumed"""
    prev = {q: st.objs[q] for q in PORTS}
    init = symbolic_ports(I, st, tag)
    for q in ('sigq', 'stopq'):
        taken = z3.UGE(prev[q]['st'], 2)
        st.objs[q]['st'] = z3.If(taken, prev[q]['st'], st.objs[q]['st'])
    # marker for the oracles: the poll that follows starts with a kill signal waiting iff this term is true
    st.emit('PORTS', tag, z3.simplify(st.objs['sigq']['st'] == 1))
    return init


def portset_value(prog):
    sd = prog.crate.struct('ActorPortSet')
    want = ['signal_rx', 'stop_rx', 'supervisor_rx', 'message_rx']
    if not sd or sorted(sd['fields']) != sorted(want):
        raise Inconclusive('ActorPortSet fields changed: %s' % (sd and sd['fields']))
    f = {'signal_rx': Obj('oneshot', 'sigq', 'rx'), 'stop_rx': Obj('oneshot', 'stopq', 'rx'), 'supervisor_rx': Obj('chan', 'supq', 'rx'),
         'message_rx': Obj('chan', 'msgq', 'rx')}
    return Agg('ActorPortSet', [f[n] for n in sd['fields']])


def unchanged(st, init, q):
    """z3 condition: port q has exactly its initial state"""
    snap = init['_snapshot'][q]
    cur = st.objs[q]
    return z3.And([cur[k] == snap[k] for k in snap])


def make_coro(I, st, prog, fn, args):
    body = prog.find_fn(fn)
    if body is None:
        raise Inconclusive('function not found: ' + fn)
    I.stats['calls_inlined'].add(body.name)
    outs = I.run_body(st, body, args)
    if len(outs) != 1 or outs[0].kind != 'ret' or not isinstance(outs[0].val, Coro):
        raise Inconclusive('%s did not return a coroutine: %r' % (fn, outs))
    return outs[0].st, outs[0].val


def poll_coro(I, st, ccell):
    return I.poll_at(I, st, ccell, (), Opaque('Context'), None)
