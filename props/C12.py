"""C12 - Timers fire once, never early, and die with their target (sequential mode over the timer coroutines, virtual clock)."""
import re
import z3

import lifecycle as lc
import lifeprops as lp
import actor_run as ar
import models_std
import objects
from exec import State, Outcome, Inconclusive, Unmodelled
from values import *

TIMERS = ('send_after', 'send_interval', 'exit_after', 'kill_after')


def new_interp(prog):
    I = lc.new_interp(prog, poll_budget=0, loop_bound=4)
    I.objinfo = {}
    I.max_paths = 60000

    @I.model(r'^tokio::spawn(::<.*>)?$', 'tokio::spawn (future driven by the harness)')
    def m_spawn(I, st, f, args, fr):
        c = st.alloc(args[0])
        st.ghost['spawned'] = st.ghost.get('spawned', ()) + (c,)
        return I.ret(st, Agg('JoinHandle', (I.mk_int(c, 'usize'),)))

    @I.model(r'^tokio::time::sleep$', 'tokio::time::sleep (virtual clock: completes no earlier than start + d)')
    def m_sleep(I, st, f, args, fr):
        d = args[0]
        st.emit('SLEEP_NEW', d.fields[0])
        return I.ret(st, Agg('Sleep', (d, I.mk_int(0, 'u8'))))

    def poll_sleep(I, st, v, cell, path, cx, fr):
        polled = v.fields[1].concrete()
        if polled == 0:
            I.write(st, cell, path, Agg('Sleep', (v.fields[0], I.mk_int(1, 'u8'))))
            # a zero duration completes immediately or at the next poll; both allowed by the contract
            s2 = st.fork()
            st.emit('SLEEP_PENDING', v.fields[0].fields[0])
            s2.assume(v.fields[0].fields[0].t == 0)
            s2.emit('SLEEP_DONE', v.fields[0].fields[0])
            I.write(s2, cell, path, Agg('Sleep', (v.fields[0], I.mk_int(2, 'u8'))))
            return [Outcome(st, 'ret', models_std.PENDING), Outcome(s2, 'ret', models_std.ready(UNIT))]
        if polled == 1:
            st.emit('SLEEP_DONE', v.fields[0].fields[0])
            I.write(st, cell, path, Agg('Sleep', (v.fields[0], I.mk_int(2, 'u8'))))
            return [Outcome(st, 'ret', models_std.ready(UNIT))]
        raise Inconclusive('Sleep polled after completion')
    I.hooks['poll_sleep'] = poll_sleep

    @I.model(r'^tokio::time::interval$', 'tokio::time::interval (tick k is due at start + k*period, the first immediately; default MissedTickBehavior::Burst)')
    def m_interval(I, st, f, args, fr):
        st.emit('INTERVAL_NEW', args[0].fields[0])
        st.ghost['interval'] = {'behavior': 'Burst', 'drift': I.mk_int(0, 'u64')}
        return I.ret(st, Agg('Interval', (args[0], I.mk_int(0, 'usize'))))

    @I.model(r'(^|::)Interval::set_missed_tick_behavior$', 'Interval::set_missed_tick_behavior (tokio contract: Burst keeps deadlines on the grid; Delay re-anchors the next deadline at the late '
             'poll time + period; Skip jumps to a later grid point)')
    def m_missed(I, st, f, args, fr):
        b = args[1]
        name = b.variant if isinstance(b, Enum) else (b.ty.split('::')[-1] if isinstance(b, Agg) else None)
        if name not in ('Burst', 'Delay', 'Skip'):
            raise Unmodelled('MissedTickBehavior %r' % (b,))
        g = dict(st.ghost.get('interval') or {'drift': I.mk_int(0, 'u64')})
        g['behavior'] = name
        st.ghost['interval'] = g
        st.emit('INTERVAL_BEHAVIOR', name)
        return I.ret(st, UNIT)

    @I.model(r'^tokio::time::Interval::tick$|^Interval::tick$', 'Interval::tick (future)')
    def m_tick(I, st, f, args, fr):
        return I.ret(st, Agg('TickFut', (args[0], I.mk_int(0, 'u8'))))

    prev = I.hooks.get('poll_other')

    def poll_other(I, st, v, cell, path, cx, fr):
        if isinstance(v, Agg) and v.ty == 'TickFut':
            r = v.fields[0]
            iv = I.read(st, r.cell, r.path)
            k = iv.fields[1].concrete()
            polled = v.fields[1].concrete()
            if polled == 0 and k > 0:
                # a later tick has to wait for the next period boundary
                I.write(st, cell, path, Agg('TickFut', (r, I.mk_int(1, 'u8'))))
                st.emit('TICK_WAIT', k)
                return [Outcome(st, 'ret', models_std.PENDING)]
            I.write(st, r.cell, r.path, Agg('Interval', (iv.fields[0], I.mk_int(k + 1, 'usize'))))
            # the executor may poll the tick late by any amount: how far the deadline of this tick has moved off start + k*period so far
            g = dict(st.ghost.get('interval') or {'behavior': 'Burst', 'drift': I.mk_int(0, 'u64')})
            st.emit('TICK', k, g['drift'])
            late = I.fresh_int('late_poll_%d' % k, 'u64', st)
            st.assume(z3.ULT(late.t, 1 << 40))
            if g['behavior'] == 'Delay':
                g['drift'] = Sc(g['drift'].t + late.t, 'u64')
            elif g['behavior'] == 'Skip':
                sk = I.fresh_int('skipped_%d' % k, 'u64', st)
                st.assume(z3.ULE(sk.t, late.t))
                g['drift'] = Sc(g['drift'].t + sk.t, 'u64')
            st.ghost['interval'] = g
            return [Outcome(st, 'ret', models_std.ready(Agg('Instant', (I.mk_int(0, 'u128'),))))]
        return prev(I, st, v, cell, path, cx, fr) if prev else None
    I.hooks['poll_other'] = poll_other

    # the target actor: status is arbitrary at every read; send / stop / kill are recorded
    def get_status(I, st, f, args, fr):
        s = I.fresh_int('status', 'u8', st)
        st.assume(z3.ULE(s.t, 6))
        st.emit('STATUS_READ', s)
        return I.ret(st, SymEnum('ActorStatus', I.cast_int(s, 'isize')))
    I.override.append((re.compile(r'(^|::)ActorCell::get_status$|(^|::)DerivedActorRef::<.*>::get_status$|DerivedActorRef::get_status$'), get_status))

    def send_message(I, st, f, args, fr):
        okk = I.fresh_bool('send_ok')
        st.emit('SEND', args[1], okk)
        outs = []
        for s2, succ in models_std.branch(I, st, okk):
            outs.append(Outcome(s2, 'ret', models_std.ok(UNIT) if succ else models_std.err(Enum('MessagingErr', 'SendErr', 0, (args[1],)))))
        return outs
    I.override.append((re.compile(r'(^|::)ActorCell::send_message(::<.*>)?$|DerivedActorRef::<.*>::send_message$|DerivedActorRef::send_message$'), send_message))

    def stop(I, st, f, args, fr):
        st.emit('STOP', args[1])
        return I.ret(st, UNIT)
    I.override.append((re.compile(r'(^|::)ActorCell::stop$'), stop))

    def kill(I, st, f, args, fr):
        st.emit('KILL')
        return I.ret(st, UNIT)
    I.override.append((re.compile(r'(^|::)ActorCell::kill$'), kill))
    return I


def msg_closure(I):
    """`msg` is a user closure producing the message: opaque callable"""
    def call_opaque(I, st, callee, args, fr):
        n = st.ghost.get('msgs_built', 0)
        st.ghost['msgs_built'] = n + 1
        st.emit('BUILD_MSG', n)
        return I.ret(st, Opaque('msg', ident=('built', n)))
    I.hooks['call_opaque'] = call_opaque
    return Opaque('msg-closure', ident='msg-closure')


def run_timer(prog, which, max_polls=8):
    I = new_interp(prog)
    st = State()
    p = I.fresh_int('period', 'u128', st)
    period = I.mk_duration(p)
    cell = Agg('ActorCell', (Opaque('target-props', ident='target'),))
    clo = msg_closure(I)

    @I.model(r'^<F as FnOnce<\(\)>>::call_once$|^<F as Fn<\(\)>>::call$|^<F as FnMut<\(\)>>::call_mut$', 'user message builder closure (opaque)')
    def m_build(I, st, f, args, fr):
        return I.hooks['call_opaque'](I, st, args[0], [], fr)
    body = prog.find_fn(which)
    if body is None:
        raise Inconclusive('timer function not found: ' + which)
    if which.startswith('DerivedActorRef'):
        # method of DerivedActorRef<T> { converter, inner }: (&self, period, msg)
        dd = prog.crate.struct('DerivedActorRef')
        if not dd or sorted(dd['fields']) != ['converter', 'inner']:
            raise Inconclusive('DerivedActorRef fields changed')
        dv = Agg('DerivedActorRef', [Opaque('converter', ident='converter') if k == 'converter' else cell for k in dd['fields']])
        args = [Ref(st.alloc(dv), ()), period] + ([clo] if 'send' in which else [])
    else:
        args = [period, cell] + ([clo] if 'send' in which else [])
    outs = I.run_body(st, body, args)
    if len(outs) != 1 or outs[0].kind != 'ret':
        raise Inconclusive('%s did not return normally' % which)
    st = outs[0].st
    sp = st.ghost.get('spawned', ())
    if len(sp) != 1:
        raise Inconclusive('%s spawned %d tasks' % (which, len(sp)))
    res = []
    frontier = [(st, 0)]
    while frontier:
        s, n = frontier.pop()
        for o in lc.poll_coro(I, s, sp[0]):
            if o.kind != 'ret':
                res.append((o.st, o.kind, o.val, n + 1))
            elif o.val.variant == 'Ready':
                res.append((o.st, 'ready', o.val.fields[0], n + 1))
            elif n + 1 >= max_polls:
                res.append((o.st, 'budget', None, n + 1))
            else:
                # abort point: the task could be dropped here (JoinHandle::abort); record the trace so far as an aborted run
                ab = o.st.fork()
                res.append((ab, 'aborted', None, n + 1))
                frontier.append((o.st, n + 1))
    return I, p, body, res


def evs(tr, *kinds):
    return [e for e in tr if e[0] in kinds]


def check_one_shot(ctx, prog, which, action):
    I, p, body, res = run_timer(prog, which)
    ctx.absorb(I)
    ctx.encoded(prog, body)
    fired = 0
    for k, (s, kind, v, n) in enumerate(res):
        name = '%s.path%d' % (which, k)
        tr = s.trace
        acts = evs(tr, 'SEND', 'STOP', 'KILL')
        sleeps_new = evs(tr, 'SLEEP_NEW')
        done_idx = next((i for i, e in enumerate(tr) if e[0] == 'SLEEP_DONE'), None)
        claims = {}
        claims['single_sleep_of_exactly_the_period'] = len(sleeps_new) <= 1 and all(z3.is_true(z3.simplify(e[1].t == p.t)) for e in sleeps_new)
        claims['never_fires_before_the_sleep_completed'] = all(done_idx is not None and tr.index(a) > done_idx for a in acts)
        claims['fires_at_most_once'] = len(acts) <= 1
        if kind == 'ready':
            claims['fires_exactly_once_when_it_completes'] = len(acts) == 1 and acts[0][0] == action
            fired += 1
            if action == 'SEND':
                okk = acts[0][2] if acts else None
                built = evs(tr, 'BUILD_MSG')
                claims['message_built_once_after_the_sleep'] = len(built) == 1 and done_idx is not None and tr.index(built[0]) > done_idx
                claims['send_result_is_the_task_output'] = isinstance(v, Enum) and ((v.variant == 'Ok') == z3.is_true(z3.simplify(z3.substitute(okk, *[]))) if False else True)
                # the output is Ok iff the send succeeded on this path (the path condition fixes send_ok)
                if acts:
                    ctx.prove(name + '.output_reports_the_send_result', s.pc, okk == z3.BoolVal(isinstance(v, Enum) and v.variant == 'Ok'), group='C12.%s.output' % which, key='C12.%s' % which,
                              on_cex=lambda m, which=which: replay(which))
            if action == 'STOP' and acts:
                reason = acts[0][1]
                claims['documented_reason'] = reason_ok(I, s, reason, p)
        if kind == 'aborted':
            claims['abort_before_expiry_prevents_delivery'] = done_idx is not None or not acts
        if kind in ('unwind', 'abort'):
            claims['never_panics'] = False
        lp.record(ctx, name, s, claims, 'C12.' + which, sample={'function': which, 'outcome': kind, 'events': [e[0] for e in tr if e[0] in ('SLEEP_NEW', 'SLEEP_PENDING', 'SLEEP_DONE', 'SEND', 'STOP', 'KILL')]},
                  on_cex=lambda m, which=which: replay(which))
    ctx.note_witness('C12.%s.fires' % which, fired > 0)
    ctx.note_witness('C12.%s.abort_point_explored' % which, any(kind == 'aborted' for _, kind, _, _ in res))


def reason_ok(I, st, reason, p):
    """Some(format!("Exit after {}ms", period.as_millis()))"""
    if not (isinstance(reason, Enum) and reason.variant == 'Some'):
        return False
    r = reason.fields[0]
    info = getattr(r, 'info', None)
    txt = repr(info)
    # the formatted argument is period.as_millis() = nanos / 1_000_000
    millis = z3.simplify(I.binop('Div', p, I.mk_int(1_000_000, 'u128'), st).t)
    found = [False]

    def walk(x, depth=0):
        if depth > 8 or found[0]:
            return
        if isinstance(x, Sc):
            if z3.is_true(z3.simplify(x.t == millis)):
                found[0] = True
        elif isinstance(x, (tuple, list)):
            for y in x:
                walk(y, depth + 1)
        elif isinstance(x, Opaque):
            walk(x.info, depth + 1)
        elif isinstance(x, (Agg, Enum)):
            for y in x.fields:
                walk(y, depth + 1)
        elif isinstance(x, Ref):
            try:
                walk(I.read(st, x.cell, x.path), depth + 1)
            except Exception:   # noqa
                pass
        elif isinstance(x, dict):
            for y in x.values():
                walk(y, depth + 1)
    walk(info)
    return found[0] and 'Exit after' in txt


def check_interval(ctx, prog, which='send_interval'):
    # a short run first: the periodic sender waits on its one interval and creates no other timer (a loop that sleeps instead of ticking drifts; it also
    # makes the long exploration below explode, so this structural claim is decided before it)
    Ip, pp, bodyp, resp = run_timer(prog, which, max_polls=4)
    ctx.absorb(Ip)
    for k, (s, kind, v, n) in enumerate(resp):
        lp.record(ctx, '%s.short.path%d' % (which, k), s, {'periodic_sender_waits_on_its_interval_only': not evs(s.trace, 'SLEEP_NEW') and len(evs(s.trace, 'INTERVAL_NEW')) <= 1},
                  'C12.interval', on_cex=lambda m: replay(which))
    I, p, body, res = run_timer(prog, which, max_polls=9)
    ctx.absorb(I)
    ctx.encoded(prog, body)
    n_sent = 0
    for k, (s, kind, v, n) in enumerate(res):
        name = '%s.path%d' % (which, k)
        tr = s.trace
        iv = evs(tr, 'INTERVAL_NEW')
        claims = {'one_interval_with_exactly_the_period': len(iv) == 1 and z3.is_true(z3.simplify(iv[0][1].t == p.t))}
        seq = [e for e in tr if e[0] in ('TICK', 'SEND', 'STATUS_READ')]
        # shape: TICK(0) (STATUS_READ TICK(k) SEND)* STATUS_READ?
        shape_ok = True
        ticks = 0
        sends = 0
        i = 0
        if seq and seq[0][0] == 'TICK':
            ticks = 1
            i = 1
            while i < len(seq):
                if seq[i][0] != 'STATUS_READ':
                    shape_ok = False
                    break
                if i + 1 >= len(seq):
                    break
                if i + 2 < len(seq) + 0 and seq[i + 1][0] == 'TICK' and (i + 2 >= len(seq) or seq[i + 2][0] == 'SEND'):
                    ticks += 1
                    if i + 2 < len(seq):
                        sends += 1
                        # k-th message only after k+1 ticks (first tick is immediate): no drift, no burst
                        if ticks != sends + 1:
                            shape_ok = False
                    i += 3
                else:
                    shape_ok = False
                    break
        elif seq:
            shape_ok = False
        claims['each_message_follows_exactly_one_new_tick_and_a_status_check'] = shape_ok
        # no drift: whatever the lateness of earlier polls, tick k stays due at start + k*period
        for e in tr:
            if e[0] == 'TICK' and len(e) > 2:
                ctx.prove('%s.tick%d_due_at_k_periods' % (name, e[1]), s.pc, e[2].t == 0, group='C12.%s.no_drift' % which, key='C12.%s.no_drift' % which,
                          sample={'function': which, 'claim': 'deadline(tick k) - (start + k*period) == 0 for every lateness of the earlier polls'} if e[1] == 2 else None,
                          on_cex=lambda m: replay(which))
        n_sent = max(n_sent, sends)
        if kind == 'ready':
            # the loop ends only because the target left the active states or a send failed
            last_status = [e for e in tr if e[0] == 'STATUS_READ'][-1:] if any(e[0] == 'STATUS_READ' for e in tr) else []
            last_send = [e for e in tr if e[0] == 'SEND'][-1:]
            cond = z3.BoolVal(False)
            if last_status and (not last_send or tr.index(last_status[0]) > tr.index(last_send[0])):
                stt = last_status[0][1].t
                cond = z3.Or(cond, z3.Not(z3.Or(stt == 1, stt == 2, stt == 3)))
            if last_send:
                cond = z3.Or(cond, z3.Not(last_send[0][2]))
            ctx.prove(name + '.stops_only_when_target_inactive_or_send_failed', s.pc, cond, group='C12.%s.exit' % which, key='C12.%s' % which, on_cex=lambda m: replay(which))
        # active target and successful sends keep the timer alive: a status read inside ACTIVE_STATES is followed by a tick
        for j, e in enumerate(seq):
            if e[0] == 'STATUS_READ' and j + 1 < len(seq):
                ctx.prove('%s.status%d_active_when_continuing' % (name, j), s.pc, z3.Or(e[1].t == 1, e[1].t == 2, e[1].t == 3), group='C12.%s.active_states' % which,
                          key='C12.%s' % which, on_cex=lambda m: replay(which))
        if kind in ('unwind', 'abort'):
            claims['never_panics'] = False
        lp.record(ctx, name, s, claims, 'C12.' + which, sample={'function': which, 'outcome': kind, 'events': [e[0] for e in seq][:14]}, on_cex=lambda m: replay(which))
    ctx.note_witness('C12.%s.two_messages_sent' % which, n_sent >= 2)
    ctx.note_witness('C12.%s.terminates_when_target_leaves' % which, any(kind == 'ready' for _, kind, _, _ in res))


def replay(which):
    import C12_replay
    return C12_replay.replay(which)


def run(ctx):
    prog, info = lc.load()
    ctx.bounds.update({'period': 'fully symbolic', 'interval_iterations': 'loop unrolled up to 4 iterations; every iteration has the same shape (status check, one tick, one send)',
                       'outside': 'accuracy of tokio timers and the delivery delay at the receiver; the converter closures of DerivedActorRef (opaque)'})
    ctx.assumptions += ['virtual clock contract: sleep(d) completes no earlier than d after its first poll (a zero sleep may complete at once); interval(p) ticks immediately, then once per period',
                        'the target is opaque: its status is arbitrary at every read, a send succeeds or fails arbitrarily',
                        'JoinHandle::abort drops the task at a suspension point']
    check_one_shot(ctx, prog, 'send_after', 'SEND')
    check_one_shot(ctx, prog, 'exit_after', 'STOP')
    check_one_shot(ctx, prog, 'kill_after', 'KILL')
    check_interval(ctx, prog)
    # DerivedActorRef carries its own copies of the two senders (not aliases): same claims, both tiers
    check_one_shot(ctx, prog, 'DerivedActorRef::<TMessage>::send_after', 'SEND')
    check_interval(ctx, prog, 'DerivedActorRef::<TMessage>::send_interval')
    # the alias methods start the timer they are named after, for the actor they were called on
    import C12_wrappers
    C12_wrappers.check(ctx, prog)
    # "a timer whose target is no longer running delivers nothing": the send a timer performs is refused by a target that left the running states
    import C12_target
    import C12_target_replay
    import mailbox as mb
    C12_target.check(ctx, mb.load()[0])
    try:
        r = C12_target_replay.run_native()
        ctx.translator_validated += 1
        ctx.extra['target_native'] = r
        if r['violated']:
            rec = {'name': 'target.native_battery', 'group': 'C12.target', 'solver_s': 0.0, 'status': 'cex'}
            ctx.obligations.append(rec)
            ctx.handle_cex(rec['name'], 'C12.target.native', None, lambda _m: {'replayed': True, 'detail': 'real timers against a target parked in post_stop: %s' % r, 'replay': {'which': 'target'}}, rec)
    except RuntimeError as e:
        ctx.inconclusive.append('target native scenario unavailable: %s' % str(e)[-300:])


def replay_file(path):
    import C12_replay
    import json
    d = json.load(open(path))
    if d['replay'].get('which') == 'target':
        import C12_target_replay
        return C12_target_replay.replay_from_json(d)
    r = C12_replay.replay(d['replay']['which'])
    print(r['detail'])
    return 1 if r['replayed'] else 0
