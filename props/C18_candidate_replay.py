"""native replay for the C18 candidate slice: the real NodeServerState::check_candidate on states with real session actors"""
import native


def case(sessions, auth, asking, this):
    return '/'.join(['.'.join('1' if s[1][0] else '0' for s in sessions), '.'.join(str(s[1][1]) for s in sessions), '.'.join(s[1][2] for s in sessions),
                     '.'.join(str(renum(sessions, k)) for k in auth), str(renum(sessions, asking)), this])


def renum(sessions, k):
    return [s[0] for s in sessions].index(k) + 1


def replies(cases):
    out, _l, rc, err = native.run('node_check', cases=';'.join(cases), timeout=60)
    if rc != 0:
        raise RuntimeError('native node_check failed: ' + err[-300:])
    return out.get('replies', '').split(',')


def replay(rp):
    sessions, auth, asking, this = rp['sessions'], rp['auth'], rp['asking'], rp['this']
    me = dict((k, s) for k, s in sessions)[asking]
    relevant = [[k, s] for k, s in sessions if k == asking or (k in auth and s[2] == me[2])]
    r = replies([case(sessions, auth, asking, this), case(relevant, [k for k in auth if k in [x[0] for x in relevant]], asking, this)])
    bad = []
    if r[0] != r[1]:
        bad.append('the answer to session %d is %s with the unauthenticated / foreign sessions present and %s without them' % (asking, r[0], r[1]))
    if len(relevant) == 1 and r[0] != 'NoOtherConnection':
        bad.append('session %d has no authenticated competitor for its peer name but is told %s' % (asking, r[0]))
    if len(relevant) > 1 and r[0] == 'NoOtherConnection':
        bad.append('session %d competes with %d authenticated sessions but is told NoOtherConnection' % (asking, len(relevant) - 1))
    # agreement with what a commit of all relevant sessions would keep: the survivor among them is told it continues, the others that they do not
    if len(relevant) > 1:
        rs = replies([case(relevant, [x[0] for x in relevant], x[0], this) for x in relevant])
        if sum(1 for x in rs if x in ('ThisConnectionContinues', 'NoOtherConnection')) != 1:
            bad.append('among the fully authenticated sessions %s the answers are %s: not exactly one continues' % (relevant, rs))
    return {'replayed': bool(bad), 'detail': 'native check_candidate %s -> %s ; %s' % (rp, r, bad or 'no violation'), 'replay': {'which': 'candidate', 'rp': rp}}
