"""C14 - Factory routing keeps its promises about where a job runs (per-router choice, sequential mode with collection models)."""
import itertools
import re
import z3

import world
import models_std
import lifeprops as lp
from exec import State, Outcome, Inconclusive, Unmodelled
from values import *

K0, K1 = Opaque('key', ident='k0'), Opaque('key', ident='k1')


def new_interp(prog):
    I = world.new_interp(prog, loop_bound=8)
    install_hash(I)
    return I


def install_hash(I):
    @I.model(r'^DefaultHasher::new$|^std::hash::DefaultHasher::new$', 'DefaultHasher::new')
    def m_dh_new(I, st, f, args, fr):
        return I.ret(st, Agg('DefaultHasher', (Opaque('nothing-hashed'),)))

    @I.model(r'^<TKey as Hash>::hash(::<.*>)?$', 'user Hash::hash (feeds the key into the hasher)')
    def m_hash(I, st, f, args, fr):
        key = models_std.deref_val(I, st, args[0])
        r = args[1]
        I.write(st, r.cell, r.path, Agg('DefaultHasher', (key,)))
        return I.ret(st, UNIT)

    @I.model(r'^<DefaultHasher as Hasher>::finish$', 'DefaultHasher::finish (uninterpreted function of the key)')
    def m_finish(I, st, f, args, fr):
        h = models_std.deref_val(I, st, args[0])
        key = h.fields[0]
        gk = ('hash_of', getattr(key, 'ident', None))
        if gk not in st.ghost:
            st.ghost[gk] = I.fresh_int('hash_%s' % (getattr(key, 'ident', 'x'),), 'u64', st)
        return I.ret(st, st.ghost[gk])

    @I.model(r'^<THasher as (hash::)?CustomHashFunction<TKey>>::hash$', 'user CustomHashFunction::hash (any usize)')
    def m_custom_hash(I, st, f, args, fr):
        v = I.fresh_int('custom_hash', 'usize', st)
        st.ghost['custom_hash'] = v
        return I.ret(st, v)
    return I


def worker(prog, I, wid, busy_keys=(), queued=0, pending_keys=()):
    d = prog.crate.struct('WorkerProperties')
    need = {'wid', 'message_queue', 'curr_jobs', 'pending_key_counts'}
    if not d or not need <= set(d['fields']):
        raise Inconclusive('WorkerProperties fields changed')
    f = {k: Opaque('worker%d.%s' % (wid, k)) for k in d['fields']}
    f['wid'] = I.mk_int(wid, 'usize')
    f['curr_jobs'] = Agg('HashMap', [Agg('()', (k, Opaque('job-options'))) for k in busy_keys])
    f['message_queue'] = Agg('VecDeque', [Opaque('queued-job', ident=('q', wid, i)) for i in range(queued)])
    f['pending_key_counts'] = Agg('HashMap', [Agg('()', (k, I.mk_int(1, 'usize'))) for k in pending_keys])
    return Agg('WorkerProperties', [f[k] for k in d['fields']])


def pool(prog, I, workers):
    return Agg('HashMap', [Agg('()', (I.mk_int(wid, 'usize'), w)) for wid, w in workers])


def job(prog, key):
    d = prog.crate.struct('Job')
    if not d or 'key' not in d['fields']:
        raise Inconclusive('Job fields changed')
    f = {k: Opaque('job.' + k) for k in d['fields']}
    f['key'] = key
    return Agg('Job', [f[k] for k in d['fields']])


def call_choose(prog, I, st, router_ty, router_val, jobv, pool_size, hint, poolv):
    body = prog.find_fn('<%s as Router>::choose_target_worker' % router_ty)
    if body is None:
        raise Inconclusive('choose_target_worker of %s not found' % router_ty)
    rc = st.alloc(router_val)
    jc = st.alloc(jobv)
    pc = st.alloc(poolv)
    outs = I.run_body(st, body, [Ref(rc, (), True), Ref(jc, ()), pool_size, hint, Ref(pc, ())])
    return body, rc, outs


def opt_usize(I, v):
    return models_std.NONE if v is None else models_std.some(I.mk_int(v, 'usize'))


def result_id(v):
    """Option<usize> -> (is_some, Sc or None)"""
    return (v.variant == 'Some', v.fields[0] if v.variant == 'Some' else None)


def check_custom(ctx, prog):
    hits = 0
    for present in ([0, 1, 2], [0, 2], [1], []):
        I = new_interp(prog)
        st = State()
        ps = I.fresh_int('pool_size', 'usize', st)
        hasher = Opaque('THasher')
        d = prog.crate.struct('CustomRouting')
        rv = Agg('CustomRouting', [hasher if k == 'hasher' else Agg('PhantomData', ()) for k in d['fields']])
        poolv = pool(prog, I, [(w, worker(prog, I, w)) for w in present])
        body, rc, outs = call_choose(prog, I, st, 'CustomRouting', rv, job(prog, K0), ps, models_std.NONE, poolv)
        ctx.absorb(I)
        ctx.encoded(prog, body)
        for k, o in enumerate(outs):
            name = 'custom.pool%s.path%d' % (''.join(map(str, present)) or '-', k)
            if o.kind != 'ret':
                # `% pool_size` is guarded by the pool_size == 0 test: a panic edge must be unreachable
                ctx.prove(name + '.no_panic', o.st.pc, z3.BoolVal(False), group='C14.custom.no_panic', key='C14.custom', on_cex=lambda m: replay('custom', m))
                continue
            some, wid = result_id(o.val)
            h = o.st.ghost.get('custom_hash')
            if some:
                hits += 1
                inpool = z3.Or([wid.t == w for w in present]) if present else z3.BoolVal(False)
                ctx.prove(name + '.selected_worker_inside_pool', o.st.pc, z3.And(z3.ULT(wid.t, ps.t), inpool), group='C14.custom.in_pool', key='C14.custom',
                          sample={'router': 'CustomRouting', 'pool': present, 'claim': 'Some(w) => w < pool_size and w in pool, for every hash value'}, on_cex=lambda m: replay('custom', m))
                if h is not None:
                    ctx.prove(name + '.selected_worker_is_hash_mod_pool_size', o.st.pc, wid.t == z3.URem(h.t, ps.t), group='C14.custom.formula', key='C14.custom', on_cex=lambda m: replay('custom', m))
            else:
                if h is not None:
                    notin = z3.And([z3.URem(h.t, ps.t) != w for w in present]) if present else z3.BoolVal(True)
                    ctx.prove(name + '.none_only_if_target_absent', o.st.pc, z3.Or(ps.t == 0, notin), group='C14.custom.none', key='C14.custom', on_cex=lambda m: replay('custom', m))
                else:
                    ctx.prove(name + '.none_without_hashing_only_for_empty_pool_size', o.st.pc, ps.t == 0, group='C14.custom.none', key='C14.custom', on_cex=lambda m: replay('custom', m))
    ctx.note_witness('C14.custom.some_worker_selected', hits > 0)


def check_round_robin(ctx, prog):
    d = prog.crate.struct('RoundRobinRouting')
    full = 0
    for n in (1, 2, 3):
        I = new_interp(prog)
        st = State()
        last = I.fresh_int('last_worker', 'usize', st)
        st.assume(z3.ULT(last.t, (1 << 63)))      # last_worker + 1 must not overflow usize (it only ever holds ids below a former pool size)
        rv = Agg('RoundRobinRouting', [last if k == 'last_worker' else Agg('PhantomData', ()) for k in d['fields']])
        busy = [(w, worker(prog, I, w, busy_keys=[K1])) for w in range(n)]
        poolv = pool(prog, I, busy)
        body = prog.find_fn('<RoundRobinRouting as Router>::choose_target_worker')
        ctx.encoded(prog, body)
        rc = st.alloc(rv)
        jc = st.alloc(job(prog, K0))
        pc = st.alloc(poolv)
        frontier = [(st, [])]
        for step in range(n):
            nxt = []
            for s, got in frontier:
                for o in I.run_body(s, body, [Ref(rc, (), True), Ref(jc, ()), I.mk_int(n, 'usize'), models_std.NONE, Ref(pc, ())]):
                    if o.kind != 'ret':
                        ctx.prove('round_robin.n%d.step%d.no_panic' % (n, step), o.st.pc, z3.BoolVal(False), group='C14.round_robin.no_panic', key='C14.round_robin', on_cex=lambda m: replay('round_robin', m))
                        continue
                    nxt.append((o.st, got + [o.val]))
            frontier = nxt
        ctx.absorb(I)
        for k, (s, got) in enumerate(frontier):
            ids = [result_id(v) for v in got]
            allsome = all(sm for sm, _ in ids)
            cover = z3.And([z3.Or([w.t == want for _, w in ids]) for want in range(n)]) if allsome else z3.BoolVal(False)
            ctx.prove('round_robin.n%d.path%d.%d_consecutive_jobs_visit_every_worker' % (n, k, n), s.pc, cover, group='C14.round_robin.spread', key='C14.round_robin',
                      sample={'router': 'RoundRobinRouting', 'pool_size': n, 'claim': 'from any last_worker, pool_size consecutive choices cover 0..pool_size'}, on_cex=lambda m: replay('round_robin', m))
            full += 1
    ctx.note_witness('C14.round_robin.sequences_explored', full > 0)


def check_key_persistent(ctx, prog):
    seen = set()
    for present, pending_at, hint in itertools.product(([0, 1, 2], [0, 2]), (None, 0, 2), (None, 1, 2)):
        I = new_interp(prog)
        st = State()
        rv = Agg('KeyPersistentRouting', (Agg('PhantomData', ()), Agg('PhantomData', ())))
        ws = [(w, worker(prog, I, w, pending_keys=[K0] if w == pending_at else [K1] if w == 0 else [])) for w in present]
        n = 3
        body, rc, outs = call_choose(prog, I, st, 'KeyPersistentRouting', rv, job(prog, K0), I.mk_int(n, 'usize'), opt_usize(I, hint), pool(prog, I, ws))
        ctx.absorb(I)
        ctx.encoded(prog, body)
        for k, o in enumerate(outs):
            name = 'key_persistent.pool%s.pending%s.hint%s.path%d' % (''.join(map(str, present)), pending_at, hint, k)
            if o.kind != 'ret':
                ctx.prove(name + '.no_panic', o.st.pc, z3.BoolVal(False), group='C14.key_persistent.no_panic', key='C14.key_persistent', on_cex=lambda m: replay('key_persistent', m))
                continue
            some, wid = result_id(o.val)
            h = o.st.ghost.get(('hash_of', 'k0'))
            if pending_at is not None and pending_at in present:
                seen.add('pending')
                claim = z3.And(z3.BoolVal(some), wid.t == pending_at) if some else z3.BoolVal(False)
                cname = 'worker_holding_the_key_wins'
            elif hint is not None and hint in present:
                seen.add('hint')
                claim = z3.And(z3.BoolVal(some), wid.t == hint) if some else z3.BoolVal(False)
                cname = 'valid_hint_is_used'
            else:
                seen.add('hash')
                if h is None:
                    claim = z3.BoolVal(False)
                else:
                    target = z3.URem(h.t, z3.BitVecVal(n, 64))
                    inpool = z3.Or([target == w for w in present])
                    claim = z3.If(inpool, z3.And(z3.BoolVal(some), (wid.t == target) if some else z3.BoolVal(False)), z3.BoolVal(not some))
                cname = 'otherwise_hash_of_key_mod_pool_size'
            ctx.prove(name + '.' + cname, o.st.pc, claim, group='C14.key_persistent.' + cname, key='C14.key_persistent',
                      sample={'router': 'KeyPersistentRouting', 'pool': present, 'worker_with_pending_key': pending_at, 'hint': hint, 'claim': cname}, on_cex=lambda m: replay('key_persistent', m))
    for w in ('pending', 'hint', 'hash'):
        ctx.note_witness('C14.key_persistent.case_' + w, w in seen)


def queuer_states(n=3):
    """(deque contents, flags) satisfying: flags[w] <=> w in deque, no duplicates; plus stale ids beyond the flag vector"""
    out = []
    for r in range(n + 1):
        for perm in itertools.permutations(range(n), r):
            out.append((list(perm), [w in perm for w in range(n)]))
    out.append(([5, 1], [False, True, False]))      # an id beyond the flag vector (left by a shrink)
    return out


def check_queuer(ctx, prog, router_ty):
    d = prog.crate.struct(router_ty)
    if not d or not {'available_workers', 'worker_in_queue'} <= set(d['fields']):
        raise Inconclusive('%s fields changed' % router_ty)
    body = prog.find_fn('<%s as Router>::choose_target_worker' % router_ty)
    avail_fn = prog.find_fn('<%s as Router>::on_worker_availability_change' % router_ty)
    if body is None or avail_fn is None:
        raise Inconclusive('%s functions not found' % router_ty)
    ctx.encoded(prog, body)
    ctx.encoded(prog, avail_fn)
    tag = 'queuer' if router_ty == 'QueuerRouting' else 'sticky'
    seen = set()

    def rv_of(I, dq, flags):
        f = {'available_workers': Agg('VecDeque', [I.mk_int(w, 'usize') for w in dq]), 'worker_in_queue': Agg('Vec', [z3.BoolVal(b) for b in flags])}
        return Agg(router_ty, [f.get(k, Agg('PhantomData', ())) for k in d['fields']])

    def read_rv(I, st, rc):
        v = I.read(st, rc, ())
        dq = [x.concrete() for x in v.fields[d['fields'].index('available_workers')].fields]
        fl = [z3.is_true(z3.simplify(b)) for b in v.fields[d['fields'].index('worker_in_queue')].fields]
        return dq, fl

    def inv(dq, fl):
        return len(set(dq)) == len(dq) and all((w in dq) == fl[w] for w in range(len(fl)))
    # availability of the three workers: available / busy with k1 / busy with k0 (sticky affinity) / has queued jobs
    # (the pending-key table of every record is exact - C14_books - so a worker busy with a key has that key pending; the queued job is one of key k1)
    kinds = {'avail': dict(), 'busy_k1': dict(busy_keys=[K1], pending_keys=[K1]), 'busy_k0': dict(busy_keys=[K0], pending_keys=[K0]), 'queued': dict(queued=1, pending_keys=[K1])}
    combos = [('avail', 'avail', 'avail'), ('busy_k1', 'avail', 'busy_k1'), ('busy_k1', 'busy_k1', 'busy_k1'), ('busy_k0', 'avail', 'queued'), ('queued', 'busy_k1', 'avail')]
    for (dq, flags) in queuer_states():
        for combo in combos:
            for hint in (None, 1):
                I = new_interp(prog)
                st = State()
                ws = [(w, worker(prog, I, w, **kinds[combo[w]])) for w in range(3)]
                outs_body, rc, outs = call_choose(prog, I, st, router_ty, rv_of(I, dq, flags), job(prog, K0), I.mk_int(3, 'usize'), opt_usize(I, hint), pool(prog, I, ws))
                ctx.absorb(I)
                for k, o in enumerate(outs):
                    name = '%s.dq%s.%s.hint%s.path%d' % (tag, ''.join(map(str, dq)) or '-', '+'.join(combo), hint, k)
                    if o.kind != 'ret':
                        lp.record(ctx, name, o.st, {'no_panic': False}, 'C14.' + tag, on_cex=lambda m: replay(tag, m))
                        continue
                    some, wid = result_id(o.val)
                    dq2, fl2 = read_rv(I, o.st, rc)
                    claims = {}
                    w = wid.concrete() if some else None
                    sticky_owner = [x for x in range(3) if combo[x] == 'busy_k0'] if router_ty == 'StickyQueuerRouting' else []
                    if some:
                        okk = combo[w] == 'avail' or (w in sticky_owner)
                        claims['returned_worker_is_available_or_owns_the_key'] = okk
                        seen.add('some')
                    if sticky_owner:
                        claims['sticky_key_goes_to_the_worker_processing_it'] = some and w in sticky_owner
                        seen.add('sticky')
                    elif not some:
                        # None only if no queued candidate (nor the hint) was available
                        cand = [x for x in dq if x < 3 and combo[x] == 'avail'] + ([hint] if hint is not None and combo[hint] == 'avail' else [])
                        claims['none_only_without_available_candidate'] = not cand
                        seen.add('none')
                    # bookkeeping: every id popped from the deque had its flag cleared; flags of ids still queued stay set
                    claims['flags_consistent_with_deque'] = all((x in dq2) == fl2[x] for x in range(len(fl2)) if x in dq or x in dq2) and len(set(dq2)) == len(dq2)
                    if [x for x in dq if x < 3 and combo[x] != 'avail'] and some and w in dq:
                        seen.add('stale_skipped')
                    lp.record(ctx, name, o.st, claims, 'C14.' + tag, sample={'router': router_ty, 'deque': dq, 'workers': combo, 'hint': hint, 'chosen': w}, on_cex=lambda m: replay(tag, m))
        # availability notifications preserve the invariant
        for wid in (0, 2, 4):
            for available in (True, False):
                I = new_interp(prog)
                st = State()
                rc = st.alloc(rv_of(I, dq, flags))
                outs = I.run_body(st, avail_fn, [Ref(rc, (), True), I.mk_int(wid, 'usize'), z3.BoolVal(available)])
                ctx.absorb(I)
                for k, o in enumerate(outs):
                    name = '%s.dq%s.avail_change(%d,%s).path%d' % (tag, ''.join(map(str, dq)) or '-', wid, available, k)
                    if o.kind != 'ret':
                        lp.record(ctx, name, o.st, {'no_panic': False}, 'C14.' + tag, on_cex=lambda m: replay(tag, m))
                        continue
                    dq2, fl2 = read_rv(I, o.st, rc)
                    pre_inv = inv(dq, flags)
                    claims = {}
                    if pre_inv:
                        # a worker reported unavailable may remain in the deque as a stale entry (skipped on pop); flags => membership is what must hold
                        claims['flag_set_implies_queued_once'] = len(set(dq2)) == len(dq2) and all((not fl2[x]) or (x in dq2) for x in range(len(fl2)))
                        if available:
                            claims['available_worker_is_queued'] = wid in dq2 and fl2[wid]
                    lp.record(ctx, name, o.st, claims, 'C14.' + tag, on_cex=lambda m: replay(tag, m))
    for w in ('some', 'none', 'stale_skipped') + (('sticky',) if router_ty == 'StickyQueuerRouting' else ()):
        ctx.note_witness('C14.%s.%s' % (tag, w), w in seen)


_replayed = {}


def replay(which, model=None):
    import C14_replay
    hv = {}
    if model is not None:
        for d in model.decls():
            for pre, key in (('custom_hash', 'hash'), ('pool_size', 'pool_size'), ('last_worker', 'last')):
                if d.name().startswith(pre + '!'):
                    try:
                        hv[key] = model[d].as_long()
                    except Exception:   # noqa
                        pass
    k = (which, tuple(sorted(hv.items())))
    if k not in _replayed:
        _replayed[k] = C14_replay.replay(which, hv)
    return _replayed[k]


def run(ctx):
    prog, info = world.load()
    ctx.bounds.update({'pool': 'worker ids 0..2, every presence pattern used by the cases; pool_size symbolic for CustomRouting, 1..3 for round robin',
                       'keys': 'two opaque keys with an uninterpreted hash', 'hash': 'CustomHashFunction::hash returns any usize',
                       'worker_books': 'queue of 0..3 jobs over two keys, zero or one job in flight, ops enqueue_job(k) / worker_complete(k) / replace_worker, hand-over succeeding or failing',
                       'outside': 'the factory actor on a runtime (messages in worker mailboxes, Finished reports racing a replacement); same-key exclusivity is an inductive invariant executed for the '
                                  'routing step (bounds.exclusive) and carried through completion / replacement / resize by the books and pool invariants; "queuer never idles a worker while jobs wait" is an inductive invariant '
                                  'executed for dispatch / worker_finished_job with the real queuer routers (bounds.queuer_hist); worker death / resize steps of that induction are not executed'})
    ctx.assumptions += ['HashMap / VecDeque / Vec contract models; DefaultHasher is an uninterpreted function of the key', 'WorkerProperties are concrete-shape records (available / busy with a key / queued)']
    check_custom(ctx, prog)
    check_round_robin(ctx, prog)
    check_key_persistent(ctx, prog)
    check_queuer(ctx, prog, 'QueuerRouting')
    check_queuer(ctx, prog, 'StickyQueuerRouting')
    import C14_books
    C14_books.check(ctx, prog)
    import C14_queuer
    import C14_queuer_replay
    C14_queuer.check(ctx, prog, 'QueuerRouting')
    C14_queuer.check(ctx, prog, 'StickyQueuerRouting')
    try:
        bad, n = C14_queuer_replay.battery()
        ctx.translator_validated += n
        if bad:
            rec = {'name': 'queuer_hist.native_battery', 'group': 'C14.queuer_hist', 'solver_s': 0.0, 'status': 'cex'}
            ctx.obligations.append(rec)
            ctx.handle_cex(rec['name'], 'C14.queuer_hist.native', None, lambda _m: {'replayed': True, 'detail': 'real FactoryState steps with the queuer routers: %s' % bad[:3], 'replay': {'which': 'queuer_battery'}}, rec)
    except RuntimeError as e:
        ctx.inconclusive.append('queuer native battery unavailable: %s' % str(e)[-300:])
    import C14_exclusive
    import C14_exclusive_replay
    C14_exclusive.check(ctx, prog)
    try:
        bad, n = C14_exclusive_replay.battery()
        ctx.translator_validated += n
        if bad:
            rec = {'name': 'exclusive.dead_worker_window', 'group': 'C14.exclusive', 'solver_s': 0.0, 'status': 'cex'}
            ctx.obligations.append(rec)
            ctx.handle_cex(rec['name'], 'C14.exclusive.native', None, lambda _m: {'replayed': True, 'detail': 'real routers across a dead-worker window: %s' % bad[:3], 'replay': {'which': 'exclusive', 'pool': [], 'hint': None}}, rec)
    except RuntimeError as e:
        ctx.inconclusive.append('exclusive native battery unavailable: %s' % str(e)[-300:])
    # premises the inductions above carry through resize and replacement: a supervision event is attributed to the incarnation that died (the actor index is the
    # inverse of the pool after every resize / death step, so a retired actor's late exit notice cannot hit the new holder of its slot and wipe that worker's
    # pending keys), and a resize moves no job - the pool slice shared with C15 (its claims are reported under this property when run from here)
    import C15_pool
    C15_pool.check(ctx, prog)
    ctx.bounds['pool_premises'] = 'resize_pool / grow_pool / shrink_pool and Factory::handle_supervisor_evt from every pool shape of the C15 pool slice (pool_size 1..3 of 4 slots)'


def replay_file(path):
    import json
    import C14_replay
    d = json.load(open(path))
    if d['replay']['which'] in ('queuer_hist', 'queuer_battery'):
        import C14_queuer_replay
        bad, _n = C14_queuer_replay.battery()
        if d['replay']['which'] == 'queuer_hist':
            bad += C14_queuer_replay.evaluate(d['replay']['rp'])[0]
        print('native FactoryState steps with the queuer routers:', bad)
        return 1 if bad else 0
    if d['replay']['which'] == 'pool':
        import C15_pool_replay
        r = C15_pool_replay.replay(d['replay']['rp'])
        print(r['detail'])
        return 1 if r['replayed'] else 0
    if d['replay']['which'] == 'exclusive':
        import C14_exclusive_replay
        rp = d['replay']
        r = C14_exclusive_replay.replay(tuple((w, (tuple(qc[0]), tuple(qc[1]))) for w, qc in rp['pool']), rp['hint'], rp.get('router', 'KeyPersistentRouting'))
    elif d['replay']['which'] == 'books':
        r = C14_replay.replay_books(d['replay']['rp'])
    else:
        r = C14_replay.replay(d['replay']['which'])
    print(r['detail'])
    return 1 if r['replayed'] else 0
