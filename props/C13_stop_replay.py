"""native replay for the C13 stop slice: Factory::post_stop on a real FactoryState with jobs waiting in the factory queue and in the workers' own queues"""
import native


def run_native(fq, wq):
    out, _l, rc, err = native.run('factory_stop', fq=fq, wq=list(wq), timeout=30)
    if rc != 0:
        raise RuntimeError('native factory_stop failed: ' + err[-300:])
    d = dict(x.split('~', 1) for x in out['out'].split(';'))
    return {'discards': [x for x in d['discards'].split(',') if x], 'workers_running': int(d['workers_running'])}


def evaluate(fq, wq):
    o = run_native(fq, wq)
    bad = []
    n_shutdown = sum(1 for x in o['discards'] if x.startswith('Shutdown'))
    want = fq + len(wq)
    if n_shutdown != want or len(o['discards']) != want:
        bad.append('every_waiting_job_is_reported_as_shutdown_exactly_once: %d jobs were waiting (%d in the factory queue, %d in worker queues), discards: %s' % (want, fq, len(wq), o['discards']))
    if o['workers_running']:
        bad.append('every_worker_is_stopped: %d still running' % o['workers_running'])
    return bad, o


def replay(rp):
    bad, o = evaluate(rp['fq'], rp['wq'])
    return {'replayed': bool(bad), 'detail': 'native Factory::post_stop %s -> %s ; violated %s' % (rp, o, bad), 'replay': {'which': 'stop', 'rp': rp}}


def battery():
    bad, n = [], 0
    for fq in (0, 1, 2):
        for wq in ([], [0], [0, 1]):
            b, o = evaluate(fq, wq)
            n += 1
            bad += b
    return bad, n
