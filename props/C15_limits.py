"""C15 (discard limit slice): WorkerProperties::enqueue_job on a concrete-shape queue with symbolic limit, both discard modes,
worker hand-over succeeding or failing: after the call the number of waiting jobs is <= limit (given it was before), the shed job
is the newest / the oldest as configured, each shed job is reported once with reason Loadshed."""
import itertools
import re
import z3

import world
import models_std
import lifeprops as lp
from exec import State, Outcome, Inconclusive, Unmodelled
from values import *
from framework import mval

ENQ = 'WorkerProperties::<TKey, TMsg>::enqueue_job'


def new_interp(prog):
    I = world.new_interp(prog, loop_bound=8)

    def is_expired(I, st, f, args, fr):
        return I.ret(st, z3.BoolVal(False))
    ov = I.override
    ov.append((re.compile(r'(^|::)Job::<.*>::is_expired$|(^|::)Job::is_expired$'), is_expired))
    for pat in (r'Job::<.*>::(accept|reject|set_worker_time|set_factory_time)$', r'(^|::)Job::(accept|reject|set_worker_time|set_factory_time)$'):
        ov.append((re.compile(pat), lambda I, st, f, a, fr: (st.emit('JOB', f.rsplit('::', 1)[1], job_id(I, st, a[0])), I.ret(st, UNIT))[1]))
    ov.append((re.compile(r'track_pending_key$'), lambda I, st, f, a, fr: I.ret(st, UNIT)))

    def cast(I, st, f, args, fr):
        okk = I.fresh_bool('cast_ok')
        if st.ghost.get('worker_closed'):
            # pre-state invariant: an idle worker with a non-empty queue is one whose mailbox is closed (the head job is retained
            # for its replacement); a live idle worker always has an empty queue (worker_complete / replace_worker dispatch at once)
            st.assume(z3.Not(okk))
        msg = args[1]
        outs = []
        for s2, succ in models_std.branch(I, st, okk):
            s2.emit('CAST', job_id(I, s2, msg.fields[0]) if isinstance(msg, Enum) and msg.fields else None, succ)
            outs.append(Outcome(s2, 'ret', models_std.ok(UNIT) if succ else models_std.err(Enum('MessagingErr', 'SendErr', 0, (msg,)))))
        return outs
    ov.append((re.compile(r'ActorRef::<.*>::cast$|(^|::)ActorRef::cast$|<impl ActorRef<.*>>::cast$'), cast))

    @I.model(r'^<dyn (factory::)?(discard::)?DiscardHandler<.*> as (factory::)?(discard::)?DiscardHandler<.*>>::discard$', 'user DiscardHandler::discard (recorded)')
    def m_discard(I, st, f, args, fr):
        reason = args[1]
        st.emit('DISCARD', reason.variant if isinstance(reason, Enum) else repr(reason), job_id(I, st, args[2]))
        return I.ret(st, UNIT)

    @I.model(r'^<Option<Arc<dyn (factory::)?(stats::)?FactoryStatsLayer>> as (factory::)?(stats::)?FactoryStatsLayer>::', 'stats layer (None: no-op)')
    def m_stats(I, st, f, args, fr):
        return I.ret(st, UNIT)
    return I


def job_id(I, st, j):
    v = models_std.deref_val(I, st, j)
    if isinstance(v, Agg) and v.ty == 'Job':
        return v.fields[1].ident if isinstance(v.fields[1], Opaque) else None
    return None


def mk_job(prog, ident):
    d = prog.crate.struct('Job')
    f = {k: Opaque('job.' + k, ident=('job', ident, k)) for k in d['fields']}
    f['key'] = Opaque('key', ident=('key', ident))
    f['msg'] = Opaque('msg', ident=ident)
    if 'accepted' in f:
        f['accepted'] = models_std.NONE
    return Agg('Job', [f[k] for k in d['fields']])


def mk_worker(prog, I, st, qlen, busy, limit, mode):
    d = prog.crate.struct('WorkerProperties')
    f = {k: Opaque('worker.' + k) for k in d['fields']}
    f['wid'] = I.mk_int(0, 'usize')
    f['message_queue'] = Agg('VecDeque', [mk_job(prog, 'q%d' % i) for i in range(qlen)])
    f['curr_jobs'] = Agg('HashMap', [Agg('()', (Opaque('key', ident=('key', 'running')), Opaque('job-options')))] if busy else [])
    f['pending_key_counts'] = Agg('HashMap', ())
    f['stats'] = models_std.NONE
    f['discard_handler'] = models_std.some(BoxV(st.alloc(Opaque('handler')), 'Arc'))
    f['factory_name'] = Str('factory')
    if mode is None:
        f['discard_settings'] = Enum('WorkerDiscardSettings', 'None', 0, ())
    else:
        f['discard_settings'] = Enum('WorkerDiscardSettings', 'Static', 1, (limit, Enum('DiscardMode', mode, 0 if mode == 'Oldest' else 1, ())))
    f['actor'] = Opaque('worker-actor-ref')
    return Agg('WorkerProperties', [f[k] for k in d['fields']])


def check(ctx, prog):
    body = prog.find_fn(ENQ)
    if body is None:
        raise Inconclusive('enqueue_job not found')
    ctx.encoded(prog, body)
    for fn in ('WorkerProperties::<TKey, TMsg>::dispatch_job', 'WorkerProperties::<TKey, TMsg>::get_next_non_expired_job'):
        b = prog.find_fn(fn)
        if b is not None:
            ctx.encoded(prog, b)
    d = prog.crate.struct('WorkerProperties')
    qi = d['fields'].index('message_queue')
    seen = set()
    for mode, qlen, busy in itertools.product(('Newest', 'Oldest', None), (0, 1, 2, 3), (False, True)):
        I = new_interp(prog)
        st = State()
        limit = I.fresh_int('limit', 'usize', st)
        # the claim is inductive: the queue respected the limit before the call
        if mode is not None:
            # inductive pre-state: waiting jobs (queue minus the retained hand-over slot of an idle worker) respect the limit
            slot0 = 1 if (not busy and qlen > 0) else 0
            st.assume(z3.UGE(limit.t, qlen - slot0))
        if not busy and qlen > 0:
            st.ghost['worker_closed'] = True
        w = mk_worker(prog, I, st, qlen, busy, limit, mode)
        wc = st.alloc(w)
        outs = I.run_body(st, body, [Ref(wc, (), True), mk_job(prog, 'new')])
        ctx.absorb(I)
        for k, o in enumerate(outs):
            name = 'enqueue.%s.q%d.%s.path%d' % (mode, qlen, 'busy' if busy else 'idle', k)
            rp = {'mode': mode, 'qlen': qlen, 'busy': busy}
            if o.kind != 'ret':
                ctx.prove(name + '.no_panic', o.st.pc, z3.BoolVal(False), group='C15.enqueue.no_panic', key='C15.enqueue.no_panic',
                          on_cex=lambda m, rp=rp, limit=limit, o=o: cex_native(m, rp, limit, o))
                continue
            wv = I.read(o.st, wc, ())
            q = [x.fields[d['fields'].index('message_queue') * 0 + 1].ident if False else job_id(I, o.st, x) for x in wv.fields[qi].fields]
            discards = [e for e in o.st.trace if e[0] == 'DISCARD']
            casts = [e for e in o.st.trace if e[0] == 'CAST']
            on_cex = (lambda m, rp=rp, limit=limit, o=o: cex_native(m, rp, limit, o))
            if mode is not None:
                running = len(wv.fields[d['fields'].index('curr_jobs')].fields)
                slot = 1 if (running == 0 and q) else 0      # a job retained at the head for the replacement of a closed worker is not a waiting job
                ctx.prove(name + '.queue_within_limit_after_enqueue', o.st.pc, z3.UGE(limit.t, len(q) - slot), group='C15.enqueue.within_limit', key='C15.enqueue.within_limit.%s.%s' % (mode, 'closed_worker_awaiting_replacement' if (not busy and qlen > 0) else 'live_worker'),
                          sample={'mode': mode, 'queue_before': qlen, 'worker_busy': busy, 'queue_after': q, 'shed': [e[2] for e in discards]}, on_cex=on_cex)
            shed = [e[2] for e in discards if e[1] == 'Loadshed']
            claims = {'each_shed_job_reported_once': len(set(shed)) == len(shed) and all(e[1] == 'Loadshed' for e in discards),
                      'no_job_both_shed_and_kept_or_dispatched': not (set(shed) & set(q)) and not (set(shed) & {e[1] for e in casts if e[2]})}
            before = ['q%d' % i for i in range(qlen)]
            everything = before + ['new']
            dispatched = [e[1] for e in casts if e[2]]
            claims['every_job_has_exactly_one_fate'] = sorted(q + shed + dispatched) == sorted(everything)
            if mode == 'Newest' and shed:
                claims['newest_mode_sheds_the_incoming_job'] = shed == ['new'] and q == before
                seen.add('newest_shed')
            if mode == 'Oldest' and shed:
                claims['oldest_mode_sheds_from_the_head'] = shed == everything[:len(shed)] or shed == [x for x in everything if x not in dispatched][:len(shed)]
                seen.add('oldest_shed')
            if mode is None:
                claims['no_shedding_without_limit'] = not shed
            if any(not e[2] for e in casts):
                seen.add('handover_failed')
            lp.record(ctx, name, o.st, claims, 'C15.enqueue', on_cex=on_cex)
    for wname in ('newest_shed', 'oldest_shed', 'handover_failed'):
        ctx.note_witness('C15.enqueue.' + wname, wname in seen)


def cex_native(model, rp, limit, o):
    import C15_limits_replay
    lim = mval(model, limit.t)
    casts = [bool(e[2]) for e in o.st.trace if e[0] == 'CAST']
    return C15_limits_replay.replay(rp, lim, casts)
