"""native replay for C12: the real timer against a real actor on tokio's paused clock; a fixed battery of scenarios per timer"""
import native


def run_native(which, period, horizon, abort=None, stop_target=None, stall_at=None, stall=None, period_us=None):
    out, _, rc, err = native.run('timers', which=which.split('::')[-1], period_ms=period, horizon_ms=horizon, abort_ms=abort, stop_target_ms=stop_target, stall_at_ms=stall_at, stall_ms=stall,
                                 period_us=period_us, timeout=30)
    if rc != 0:
        raise RuntimeError('native timer replay failed: ' + err[-300:])
    return [x for x in out.get('log', '').split(',') if x]


def times(log, prefix):
    return [int(x.split('@')[1]) for x in log if x.startswith(prefix)]


def replay(which):
    nw = which.split('::')[-1]
    if which.startswith('DerivedActorRef') and not nw.startswith('derived_'):
        nw = 'derived_' + nw
    w = nw[len('derived_'):] if nw.startswith('derived_') else nw
    return _replay(which, w, nw)


def _replay(which, w, nw):
    bad = []
    obs = {}
    p = 100
    if w == 'send_after':
        log = run_native(nw, p, 450)
        obs['plain'] = log
        t = times(log, 'msg:')
        if len(t) != 1 or t[0] < p:
            bad.append('fires exactly once, not before the period: deliveries at %s' % t)
        if 'timer_output:ok' not in log:
            bad.append('output does not report the successful send')
        log = run_native(nw, p, 450, abort=50)
        obs['aborted'] = log
        if times(log, 'msg:'):
            bad.append('delivered although aborted before expiry')
        log = run_native(nw, p, 450, stop_target=20)
        obs['dead_target'] = log
        if times(log, 'msg:') or 'timer_output:err' not in log:
            bad.append('dead target: expected no delivery and an error through the handle')
        log = run_native(nw, 0, 50)
        obs['zero'] = log
        if len(times(log, 'msg:')) != 1:
            bad.append('zero period: expected exactly one delivery')
        # a positive period below the timer's millisecond granularity: not before the period has elapsed (the paused clock shows whole milliseconds)
        log = run_native(nw, 0, 50, period_us=900)
        obs['submillisecond'] = log
        t = times(log, 'msg:')
        if len(t) != 1 or t[0] < 1:
            bad.append('a 900 microsecond period: delivered at +%s ms, before the period elapsed' % t)
    elif w == 'send_interval':
        log = run_native(nw, p, 560)
        obs['plain'] = log
        t = times(log, 'msg:')
        if t != [100, 200, 300, 400, 500]:
            bad.append('k-th message at k periods without drift: deliveries at %s' % t)
        # the executor is stalled from 150 to 280 (one deadline missed): the late message goes out at 280, the following ones are back on the grid
        log = run_native(nw, p, 560, stall_at=150, stall=130)
        obs['stalled'] = log
        t = times(log, 'msg:')
        if any(tk > max((k + 1) * p, 280) for k, tk in enumerate(t)) or len(t) < 5:
            bad.append('k-th message at k periods without drift after a late poll: deliveries at %s' % t)
        log = run_native(nw, p, 560, stop_target=250)
        obs['target_stops'] = log
        t = times(log, 'msg:')
        if t != [100, 200] or 'timer_finished:1' not in log:
            bad.append('interval must end within one period of the target stopping: %s' % log)
        log = run_native(nw, p, 560, abort=250)
        obs['aborted'] = log
        if times(log, 'msg:') != [100, 200]:
            bad.append('abort must prevent further deliveries: %s' % times(log, 'msg:'))
    else:
        log = run_native(nw, 1500, 4000)
        obs['plain'] = log
        t = times(log, 'terminated:')
        want = 'Exit_after_1500ms' if w.endswith('exit_after') else 'killed'
        if len(t) != 1 or t[0] < 1500 or not any(x.startswith('terminated:' + want + '@') for x in log):
            bad.append('stops the actor once, not before the period, with the documented reason: %s' % [x for x in log if x.startswith('terminated')])
        log = run_native(nw, 1500, 4000, abort=700)
        obs['aborted'] = log
        if times(log, 'terminated:'):
            bad.append('aborted timer still stopped the actor')
        log = run_native(nw, 0, 50, period_us=900)
        obs['submillisecond'] = log
        t = times(log, 'terminated:')
        if len(t) != 1 or t[0] < 1:
            bad.append('a 900 microsecond period: the actor was stopped at +%s ms, before the period elapsed' % t)
    return {'replayed': bool(bad), 'detail': 'native %s scenarios: %s ; observations %s' % (w, bad, obs), 'replay': {'which': which}}


def replay_alias(fn):
    """the alias methods: ActorRef's are what the battery above calls anyway; DerivedActorRef's exit_after / kill_after through `get_derived`"""
    return replay(fn)
