"""A small world of real-shaped ActorCells (Arc<ActorProperties> with modelled synchronisation objects) for the sequential
checks of the supervision tree (C05) and of spawn failure (C08)."""
import re
import z3

import mirdump
import models_std
import models_sync
import models_ctor
import models_coll
import objects
from exec import Interp, State, Outcome, Inconclusive, Unmodelled
from values import *

FEATURES = ('cluster',)


def load():
    return mirdump.load('ractor', features=FEATURES)


def new_interp(prog, loop_bound=8):
    I = Interp(prog, mode='bv', loop_bound=loop_bound)
    models_std.install(I)
    models_sync.install(I)
    models_sync.install_notify(I)
    models_ctor.install(I)
    models_coll.install(I)

    @I.model(r'oneshot::Sender::<.*>::send$', 'oneshot::Sender::send')
    def m_os_send(I, st, f, args, fr):
        o = args[0]
        if not isinstance(o, Obj):
            raise Unmodelled('oneshot send on %r' % (o,))
        h = I.hooks.get('oneshot_ident')
        ident = h(I, st, o, args[1]) if h else 1
        res = I.shared_op(st, o, 'send', objects.oneshot_send(ident), {'ok': 'bool'}, label='%s.send' % o.oid)
        outs = []
        for s2, okk in models_std.branch(I, st, res['ok']):
            outs.append(Outcome(s2, 'ret', models_std.ok(UNIT) if okk else models_std.err(args[1])))
        return outs
    return I


class World:
    """N cells; cell i has pid 100+i"""

    def __init__(self, prog, I, st, n, statuses=None, remote=None):
        """remote = {i: j}: cell i carries a *remote* id (node 7) whose pid equals cell j's pid - two different actors, as a supervisor that holds a local child
        next to the proxy of a remote actor sees them (pids of different nodes come from different allocators)"""
        self.prog, self.I, self.st, self.n = prog, I, st, n
        self.remote = dict(remote or {})
        # the child set's key type is read from the source on every run (the fixture must be built in the representation the code uses)
        import os
        import mirdump
        src = open(os.path.join(mirdump.REPO, 'ractor', 'src', 'actor', 'supervision.rs')).read()
        mm = re.search(r'children\s*:\s*Mutex<\s*Option<\s*HashMap<\s*([A-Za-z0-9_:]+)\s*,', src)
        self.key_by_pid = bool(mm) and mm.group(1).split('::')[-1] in ('u64', 'usize')
        if mm is None:
            raise Inconclusive('SupervisionTree.children is no longer a Mutex<Option<HashMap<K, ActorCell>>>')
        self.pd = prog.crate.struct('ActorProperties')
        self.td = prog.crate.struct('SupervisionTree')
        if not self.pd or not self.td:
            raise Inconclusive('ActorProperties / SupervisionTree not found in sources')
        need_t = {'children', 'supervisor'}
        if not need_t <= set(self.td['fields']):
            raise Inconclusive('SupervisionTree fields changed: %s' % self.td['fields'])
        self.pcell = []
        self.status_oid = []
        self.signal_os = []
        self.children_mx = []
        self.supervisor_mx = []
        self.status0 = []
        for i in range(n):
            s_oid = 'status%d' % i
            stt = statuses[i] if statuses else I.fresh_int('status%d' % i, 'u8')
            if not statuses:
                st.assume(z3.ULE(stt.t, 6))
            self.status0.append(stt)
            st.objs[s_oid] = {'w': stt.t}
            sig_os = 'sig%d' % i
            st.objs[sig_os] = objects.oneshot_init()
            sig_mx = self._mutex('sigmx%d' % i, models_std.some(Obj('oneshot', sig_os, 'tx')))
            stop_os = 'stop%d' % i
            st.objs[stop_os] = objects.oneshot_init()
            stop_mx = self._mutex('stopmx%d' % i, models_std.some(Obj('oneshot', stop_os, 'tx')))
            ch_mx = self._mutex('children%d' % i, models_std.some(Agg('HashMap', ())))
            sup_mx = self._mutex('supervisor%d' % i, models_std.NONE)
            supq = 'supq%d' % i
            st.objs[supq] = objects.chan_init(4)
            tf = {k: Opaque('tree.' + k) for k in self.td['fields']}
            tf['children'] = ch_mx
            tf['supervisor'] = sup_mx
            if 'monitors' in tf:
                tf['monitors'] = self._mutex('monitors%d' % i, models_std.NONE)
            f = {k: Opaque('props%d.%s' % (i, k), ident='props%d.%s' % (i, k)) for k in self.pd['fields']}
            f['id'] = self.id_of(i)
            f['name'] = models_std.NONE
            f['status'] = Obj('atomic', s_oid)
            f['signal'] = sig_mx
            f['stop'] = stop_mx
            f['supervision'] = Obj('chan', supq, 'tx')
            f['tree'] = Agg('SupervisionTree', [tf[k] for k in self.td['fields']])
            self.pcell.append(st.alloc(Agg('ActorProperties', [f[k] for k in self.pd['fields']])))
            self.status_oid.append(s_oid)
            self.signal_os.append(sig_os)
            self.children_mx.append(ch_mx)
            self.supervisor_mx.append(sup_mx)

    def _mutex(self, oid, inner):
        self.st.objs[oid] = objects.mutex_init()
        self.st.ghost[('mutex_inner', oid)] = self.st.alloc(inner)
        return Obj('mutex', oid)

    def cell(self, i):
        return Agg('ActorCell', (BoxV(self.pcell[i], 'Arc'),))

    def id_of(self, i):
        if i in self.remote:
            return Enum('ActorId', 'Remote', 1, (self.I.mk_int(7, 'u64'), self.I.mk_int(100 + self.remote[i], 'u64')))
        return Enum('ActorId', 'Local', 0, (self.I.mk_int(100 + i, 'u64'),))

    def key_of(self, i):
        """the key under which cell i sits in a child set, in the representation the code under test uses"""
        if self.key_by_pid:
            return self.I.mk_int(100 + self.remote.get(i, i), 'u64')
        return self.id_of(i)

    def set_shape(self, sup, closed=()):
        """sup[i] = supervisor index or None; closed = indices whose child set is closed (None)"""
        st = self.st
        for i in range(self.n):
            kids = [j for j in range(self.n) if sup[j] == i]
            if i in closed:
                if kids:
                    raise ValueError('closed set with children')
                val = models_std.NONE
            else:
                val = models_std.some(Agg('HashMap', [Agg('()', (self.key_of(j), self.cell(j))) for j in kids]))
            st.cells[st.ghost[('mutex_inner', self.children_mx[i].oid)]] = val
            st.cells[st.ghost[('mutex_inner', self.supervisor_mx[i].oid)]] = models_std.NONE if sup[i] is None else models_std.some(self.cell(sup[i]))

    # ---------------------------------------------------------------- observers (on any later state of the same world)
    def pid_of(self, st, cellv):
        """index of the cell a stored ActorCell value denotes (by identity of its properties record, not by pid: pids may collide across nodes)"""
        c = cellv.fields[0].cell
        if c in self.pcell:
            return self.pcell.index(c)
        props = self.I.read(st, c, ())
        return props.fields[self.pd['fields'].index('id')].fields[-1].concrete() - 100

    def children(self, st, i):
        v = st.cells[st.ghost[('mutex_inner', self.children_mx[i].oid)]]
        if v.variant == 'None':
            return None
        return sorted(self.pid_of(st, p.fields[1]) for p in v.fields[0].fields)

    def child_keys_consistent(self, st, i):
        v = st.cells[st.ghost[('mutex_inner', self.children_mx[i].oid)]]
        if v.variant == 'None':
            return True
        from exec import val_key
        return all(val_key(p.fields[0]) == val_key(self.key_of(self.pid_of(st, p.fields[1]))) for p in v.fields[0].fields)

    def supervisor(self, st, i):
        v = st.cells[st.ghost[('mutex_inner', self.supervisor_mx[i].oid)]]
        return None if v.variant == 'None' else self.pid_of(st, v.fields[0])

    def killed(self, st, i):
        return z3.simplify(st.objs[self.signal_os[i]]['st'] == 1)

    def status(self, st, i):
        return st.objs[self.status_oid[i]]['w']

    def locks_free(self, st):
        return all(z3.is_true(z3.simplify(v['owner'] == 0)) for k, v in st.objs.items() if isinstance(v, dict) and 'owner' in v)

    def snapshot(self, st):
        return {'children': [self.children(st, i) for i in range(self.n)], 'supervisor': [self.supervisor(st, i) for i in range(self.n)]}

    def invariant(self, st):
        """c in children(s) <=> supervisor(c) == s; closed sets count as empty; map keys match the stored cells"""
        snap = self.snapshot(st)
        for s in range(self.n):
            kids = snap['children'][s] or []
            if len(set(kids)) != len(kids) or not self.child_keys_consistent(st, s):
                return False, snap
            for c in range(self.n):
                if (c in kids) != (snap['supervisor'][c] == s):
                    return False, snap
        return True, snap


def forests(n):
    """all supervisor assignments over n cells without cycles"""
    out = []

    def rec(i, sup):
        if i == n:
            # acyclic?
            for c in range(n):
                seen = set()
                x = c
                while x is not None:
                    if x in seen:
                        return
                    seen.add(x)
                    x = sup[x]
            out.append(list(sup))
            return
        for s in [None] + [j for j in range(n) if j != i]:
            rec(i + 1, sup + [s])
    rec(0, [])
    return out


def remote_ids_available(prog):
    """remote actor ids exist only in cluster builds (the dump used here is built with the cluster feature when the crate has it)"""
    return prog.find_fn('ActorProperties::new_remote::<TActor>') is not None or prog.find_fn('ActorCell::new_remote::<TActor>') is not None
