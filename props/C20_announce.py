"""C20 (announce slice): what a session tells its peer about the local node - `<NodeSession as Actor>::handle_supervisor_evt` for the pid-lifecycle and
process-group events it subscribed to.

For local actors that are remotable or not (every combination of up to two actors per event):
  * Spawn(who): a remotable actor becomes advertised (it enters `advertised_local_pids`, the allow-list C17 relies on) and exactly one Spawn frame naming its
    pid and name goes to the peer; an actor that is not remotable changes nothing and nothing is sent
  * Terminate(who): the reverse - removed from the advertised set, one Terminate frame with its pid; nothing for a non-remotable actor
  * group Join / Leave: one PgJoin / PgLeave frame with the scope and group verbatim and exactly the remotable actors, in order; no frame when none is remotable;
    the advertised set and the proxy table are untouched
  * so the advertised set is at all times exactly the set of pids announced by Spawn and not yet by Terminate (induction over events)"""
import itertools
import re
import z3

import cluster as cl
import lifecycle as lc
import lifeprops as lp
import models_std
import C17 as fsm
import C17_gates as gates
from exec import State, Outcome, Inconclusive, Unmodelled
from values import *

FN = '<NodeSession as Actor>::handle_supervisor_evt'


def new_interp(prog, remotable):
    I = gates.session_interp(prog, effects=False)

    def m_sr(I, st, f, args, fr):
        c = models_std.deref_val(I, st, args[0])
        v = c
        while isinstance(v, Agg) and v.fields:
            v = v.fields[0]
        return I.ret(st, z3.BoolVal(bool(remotable.get(getattr(v, 'ident', None), False))))
    I.override.append((re.compile(r'ActorCell::supports_remoting$'), m_sr))

    def ident_of(I, st, a):
        v = models_std.deref_val(I, st, a)
        while isinstance(v, Agg) and v.fields:
            v = v.fields[0]
        return getattr(v, 'ident', None)

    IDS = {'tcp': 900, 'proxy77': 77, 'stranger': 55, 'myself': 1000}

    def m_id(I, st, f, args, fr):
        who = str(ident_of(I, st, args[0]))
        n = IDS.get(who, int(who[1:]) if who.startswith('a') and who[1:].isdigit() else (int(who[3:]) + 500 if who.startswith('new') else 0))
        return I.ret(st, Enum('ActorId', 'Local', 0, (I.mk_int(n, 'u64'),)))
    I.override.append((re.compile(r'(^|::)ActorCell::get_id$|(^|::)ActorRef::<.*>::get_id$'), m_id))

    def m_name(I, st, f, args, fr):
        who = ident_of(I, st, args[0])
        return I.ret(st, models_std.some(Str('name-' + str(who))))
    I.override.append((re.compile(r'(^|::)ActorCell::get_name$'), m_name))

    def m_pid(I, st, f, args, fr):
        v = models_std.deref_val(I, st, args[0])
        return I.ret(st, v.fields[0])
    I.override.append((re.compile(r'(^|::)ActorId::pid$'), m_pid))

    @I.model(r'(^|::)ActorCell::kill$|(^|::)ActorRef::<.*>::kill$', 'ActorCell::kill: recorded')
    def m_kill(I, st, f, args, fr):
        tgt = models_std.deref_val(I, st, args[0])
        while isinstance(tgt, Agg) and tgt.fields:
            tgt = tgt.fields[0]
        st.emit('KILL', tgt)
        return I.ret(st, UNIT)

    @I.model(r'^<Box<dyn (std::error::)?Error.*> as From<.*>>::from$', 'boxed error')
    def m_berr(I, st, f, args, fr):
        return I.ret(st, Opaque('boxed-error', info=args[0]))

    def m_send(I, st, f, args, fr):
        st.emit('SEND_CONTROL', args[1])
        return I.ret(st, UNIT)
    I.override.append((re.compile(r'NodeSessionState::tcp_send_control$'), m_send))
    return I


def cellv(k):
    return Agg('ActorCell', (Opaque('props', ident='a%d' % k),))


def frame(prog, I, st, v):
    """(kind, scope, group, [(pid, name)]) of a recorded control message"""
    m = cl.field(prog, v, 'ControlMessage', 'msg', 'out/control.rs')
    if not (isinstance(m, Enum) and m.variant == 'Some'):
        return None
    e = m.fields[0]
    pl = e.fields[0]

    def actors(lst):
        out = []
        for a in lst.fields:
            pid = cl.field(prog, a, 'Actor', 'pid', 'out/control.rs')
            nm = cl.field(prog, a, 'Actor', 'name', 'out/control.rs')
            out.append((pid.concrete(), nm.fields[0].s if isinstance(nm, Enum) and nm.variant == 'Some' else None))
        return out
    if e.variant == 'Spawn':
        return ('Spawn', None, None, actors(cl.field(prog, pl, 'Spawn', 'actors', 'out/control.rs')))
    if e.variant == 'Terminate':
        return ('Terminate', None, None, [(x.concrete(), None) for x in cl.field(prog, pl, 'Terminate', 'ids', 'out/control.rs').fields])
    if e.variant in ('PgJoin', 'PgLeave'):
        sc, gr = cl.field(prog, pl, e.variant, 'scope', 'out/control.rs'), cl.field(prog, pl, e.variant, 'group', 'out/control.rs')
        return (e.variant, sc.s if isinstance(sc, Str) else None, gr.s if isinstance(gr, Str) else None, actors(cl.field(prog, pl, e.variant, 'actors', 'out/control.rs')))
    return (e.variant, None, None, [])


def check(ctx, prog):
    body = prog.find_fn(FN)
    if body is None:
        raise Inconclusive('NodeSession::handle_supervisor_evt not found')
    ctx.encoded(prog, body)
    plc = prog.crate.enum('PidLifecycleEvent')
    seen = set()
    events = []
    for k in (1, 2):
        events.append(('Spawn%d' % k, lambda k=k: cl.variant(prog, 'SupervisionEvent', 'PidLifecycleEvent', (cl.variant(prog, 'PidLifecycleEvent', 'Spawn', (cellv(k),)),)), [k]))
        events.append(('Terminate%d' % k, lambda k=k: cl.variant(prog, 'SupervisionEvent', 'PidLifecycleEvent', (cl.variant(prog, 'PidLifecycleEvent', 'Terminate', (cellv(k),)),)), [k]))
    for lst in ((), (1,), (1, 2), (2, 1)):
        for kind, idx in (('Join', 0), ('Leave', 1)):
            events.append(('%s%s' % (kind, ''.join(map(str, lst)) or '-'),
                           lambda lst=lst, kind=kind, idx=idx: cl.variant(prog, 'SupervisionEvent', 'ProcessGroupChanged', (cl.variant(prog, 'GroupChangeMessage', kind, (Str('the-scope'), Str('the-group'), Agg('Vec', [cellv(k) for k in lst]))),)), list(lst)))
    for advertised in ((), (1,), (1, 2)):
        for rem in itertools.product((False, True), repeat=2):
            remotable = {'a1': rem[0], 'a2': rem[1]}
            for ename, mk, who in events:
                I = new_interp(prog, remotable)
                st0 = State()
                authed = [(lab, av) for lab, av, okk, close in fsm.auth_states(prog, I, st0) if okk]
                st = st0.fork()
                adv = Agg('HashSet', [I.mk_int(p, 'u64') for p in advertised])
                ra = Agg('HashMap', [Agg('()', (I.mk_int(77, 'u64'), Opaque('ActorRef', ident='proxy77')))])
                sc = st.alloc(gates.session_state(prog, I, st, authed[0][1], advertised_local_pids=adv, remote_actors=ra))
                selfc = gates.session_self(prog, st)
                st, coro = lc.make_coro(I, st, prog, FN, [Ref(selfc, ()), Opaque('ActorRef', ident='myself'), mk(), Ref(sc, (), True)])
                cc = st.alloc(coro)
                done = gates.drive(I, st, cc, 4)
                ctx.absorb(I)
                ctx.paths += len(done)
                for k, (s, rk, v) in enumerate(done):
                    name = 'announce.adv%s.rem%s.%s.path%d' % (''.join(map(str, advertised)) or '-', ''.join('1' if x else '0' for x in rem), ename, k)
                    rp = {'advertised': list(advertised), 'remotable': list(rem), 'event': ename}
                    cex = (lambda rp=rp: (lambda m: replay(rp)))()
                    if rk != 'ready':
                        lp.record(ctx, name, s, {'handler_completes': False}, 'C20.announce', on_cex=cex)
                        continue
                    post = I.read(s, sc, ())
                    adv2 = sorted(z3.simplify(x.t).as_long() for x in cl.field(prog, post, 'NodeSessionState', 'advertised_local_pids').fields)
                    ra2 = [z3.simplify(e.fields[0].t).as_long() for e in cl.field(prog, post, 'NodeSessionState', 'remote_actors').fields]
                    frames = [frame(prog, I, s, e[1]) for e in s.trace if e[0] == 'SEND_CONTROL']
                    remk = [k_ for k_ in who if remotable['a%d' % k_]]
                    claims = {'proxy_table_untouched': ra2 == [77]}
                    if ename.startswith('Spawn'):
                        want_adv = sorted(set(advertised) | set(remk))
                        want_fr = [('Spawn', None, None, [(k_, 'name-a%d' % k_)]) for k_ in remk]
                        seen.add('spawn_announced') if remk else seen.add('non_remotable_ignored')
                    elif ename.startswith('Terminate'):
                        want_adv = sorted(set(advertised) - set(remk))
                        want_fr = [('Terminate', None, None, [(k_, None)]) for k_ in remk]
                        seen.add('terminate_announced') if remk else None
                    else:
                        want_adv = sorted(advertised)
                        kind = 'PgJoin' if ename.startswith('Join') else 'PgLeave'
                        want_fr = [(kind, 'the-scope', 'the-group', [(k_, 'name-a%d' % k_) for k_ in remk])] if remk else []
                        seen.add('group_change_announced') if remk else None
                    claims['advertised_set_is_exactly_what_was_announced'] = adv2 == want_adv
                    claims['peer_is_told_exactly_the_remotable_actors_verbatim'] = frames == want_fr
                    lp.record(ctx, name, s, claims, 'C20.announce', on_cex=cex)
    for w in ('spawn_announced', 'non_remotable_ignored', 'terminate_announced', 'group_change_announced'):
        ctx.note_witness('C20.announce.' + w, w in seen)
    check_child_exits(ctx, prog)
    ctx.bounds['announce'] = 'pid-lifecycle Spawn / Terminate of one actor and group Join / Leave of up to two actors, each actor remotable or not, advertised set empty / {1} / {1, 2}'


def check_child_exits(ctx, prog):
    """the session's own children: the transport actor and the proxies. When the transport actor exits or fails the session stops itself (its proxies are
    its children and go with it, C05); when a proxy exits it leaves the table and is stopped; a proxy that failed is killed and replaced by a fresh proxy for the
    same pid; an unknown child changes nothing"""
    import C20_mirror
    body = prog.find_fn(FN)
    seen = set()
    for who in ('tcp', 'proxy77', 'stranger'):
        for evname in ('ActorTerminated', 'ActorFailed'):
            I = new_interp(prog, {})
            C20_mirror.install_spawn(I)
            st0 = State()
            authed = [(lab, av) for lab, av, okk, close in fsm.auth_states(prog, I, st0) if okk]
            st = st0.fork()
            ra = Agg('HashMap', [Agg('()', (I.mk_int(77, 'u64'), Opaque('ActorRef', ident='proxy77'))), Agg('()', (I.mk_int(78, 'u64'), Opaque('ActorRef', ident='proxy78')))])
            sc = st.alloc(gates.session_state(prog, I, st, authed[0][1], remote_actors=ra))
            selfc = gates.session_self(prog, st)
            cell = Agg('ActorCell', (Opaque('props', ident=who),))
            if evname == 'ActorTerminated':
                ev = cl.variant(prog, 'SupervisionEvent', 'ActorTerminated', (cell, models_std.NONE, models_std.NONE))
            else:
                ev = cl.variant(prog, 'SupervisionEvent', 'ActorFailed', (cell, Opaque('err')))
            st, coro = lc.make_coro(I, st, prog, FN, [Ref(selfc, ()), Opaque('ActorRef', ident='myself'), ev, Ref(sc, (), True)])
            cc = st.alloc(coro)
            done = gates.drive(I, st, cc, 6)
            ctx.absorb(I)
            ctx.paths += len(done)
            for k, (s, rk, v) in enumerate(done):
                name = 'child_exit.%s.%s.path%d' % (who, evname, k)
                rp = {'child': who, 'event': evname}
                cex = (lambda rp=rp: (lambda m: replay_child(rp)))()
                if rk != 'ready':
                    lp.record(ctx, name, s, {'handler_completes': False}, 'C20.child_exit', on_cex=cex)
                    continue
                tab = C20_mirror.table(I, s, prog, sc)
                stops_self = [e for e in s.trace if e[0] == 'STOP' and getattr(e[1], 'ident', None) == 'myself']
                stopped = [e[1] for e in s.trace if e[0] == 'STOP_PROXY'] + [getattr(e[1], 'ident', None) for e in s.trace if e[0] in ('STOP', 'KILL') and getattr(e[1], 'ident', None) != 'myself']
                spawned = [e for e in s.trace if e[0] == 'SPAWNED']
                failed = [e for e in s.trace if e[0] == 'SPAWN_FAILED']
                res_ok = isinstance(v, Enum) and v.variant == 'Ok'
                claims = {}
                if who == 'tcp':
                    claims['session_stops_itself_when_its_transport_is_gone'] = len(stops_self) == 1 and tab == {77: 'proxy77', 78: 'proxy78'}
                    seen.add('transport_gone')
                elif who == 'stranger':
                    claims['unknown_child_changes_nothing'] = not stops_self and tab == {77: 'proxy77', 78: 'proxy78'} and not stopped and not spawned
                elif evname == 'ActorTerminated':
                    claims['exited_proxy_leaves_the_table_and_is_stopped'] = tab == {78: 'proxy78'} and stopped == ['proxy77'] and not stops_self and not spawned
                    seen.add('proxy_exit')
                else:
                    # a failed proxy is replaced by a fresh one for the same pid - or the handler fails (and with it the session) when that spawn fails
                    claims['failed_proxy_is_replaced_for_the_same_pid_or_the_session_fails'] = ('proxy77' in stopped) and ((res_ok and len(spawned) == 1 and spawned[0][1] == 77 and tab == {77: spawned[0][2], 78: 'proxy78'}) or (not res_ok and bool(failed)))
                    seen.add('proxy_failed')
                lp.record(ctx, name, s, claims, 'C20.child_exit', on_cex=cex)
    for w in ('transport_gone', 'proxy_exit', 'proxy_failed'):
        ctx.note_witness('C20.child_exit.' + w, w in seen)


def replay_child(rp):
    import C20_announce_replay
    return C20_announce_replay.replay_child(rp)


def replay(rp):
    import C20_announce_replay
    return C20_announce_replay.replay(rp)
