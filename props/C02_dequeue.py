"""C02 (dequeue side) - one handler invocation per dequeued message: over every path of one real `process_message` iteration from an arbitrary loop-head state
(ports symbolic, callbacks opaque, kill possible at every poll)

  * at most one item is taken from the message queue per iteration;
  * a handler (`handle` / `handle_serialized`) starts only after a message was dequeued in this iteration, at most once, and is given exactly that message
    (the identity token of the dequeued queue entry travels through BoxedMessage -> from_boxed -> typed message);
  * a message that decodes is handed to its handler in the same iteration unless a kill pre-empts it (then the actor dies, nothing is handled twice);
    a message that does not decode reaches no handler.

Together with the enqueue side (every accepted send appends once, nothing is enqueued for a refused send - the concurrent slice in C02.py) and the FIFO contract of
the queue this is "handled at most once, never duplicated"."""
import z3

import lifecycle as lc
import lifeprops as lp
import lifetrace as lt
from values import *


def msg_token(v):
    """identity token carried by a value derived from a dequeued message"""
    seen = 0
    while seen < 8 and v is not None:
        seen += 1
        if isinstance(v, Opaque) and v.tag in ('dyn-msg', 'SerializedMessage'):
            return v.info
        if isinstance(v, Opaque) and v.tag == 'typed-msg':
            v = v.info
            continue
        if isinstance(v, Agg) and v.ty == 'BoxedMessage':
            toks = [msg_token(x.fields[0]) for x in v.fields if isinstance(x, Enum) and x.variant == 'Some' and x.fields]
            toks = [t for t in toks if t is not None]
            return toks[0] if len(toks) == 1 else None
        return None
    return None


def claims_of(r):
    tr = r['state'].trace
    mrecv = [e for e in tr if e[0] == 'RECV' and e[1] == 'msgq']
    dec = [e for e in tr if e[0] == 'DECODE']
    hstart = [(i, e) for i, e in enumerate(tr) if e[0] == 'CB' and e[1] == 'start' and e[2] in ('handle', 'handle_serialized')]
    hargs = [e for e in tr if e[0] == 'CBARG']
    killed = r['klass'] is not None and r['klass'][0] == 'killed'
    kinds = [e for e in tr if e[0] == 'MSGKIND']
    flushed = [e for e in tr if e[0] == 'FLUSHED']
    c = {}
    c['at_most_one_message_dequeued_per_iteration'] = len(mrecv) <= 1
    # whatever the iteration takes out of a port it dispatches: nothing is read with a non-blocking look and dropped, and a dequeued message always reaches
    # the decoder (from there on the other claims follow it) unless a kill ends the actor first
    taken = [e for e in tr if e[0] == 'RECV' and e[1] in ('stopq', 'supq', 'msgq')]
    c['nothing_taken_from_a_port_is_discarded'] = not flushed and len(taken) <= 1
    if r['klass'] is not None and any(e[1] in ('plain', 'serialized') for e in kinds):
        c['a_dequeued_message_reaches_the_decoder_unless_a_kill_preempts'] = bool(dec) or killed
    c['a_handler_starts_at_most_once_and_only_for_a_dequeued_message'] = len(hstart) <= 1 and (not hstart or len(mrecv) == 1) and len(hargs) == len(hstart)
    same = True
    for e in hargs:
        t = msg_token(e[2])
        same = same and len(mrecv) == 1 and t is not None and t is mrecv[0][2] or (same and len(mrecv) == 1 and t is not None and z3.is_expr(t) and t.eq(mrecv[0][2]))
    c['the_handler_is_given_exactly_the_dequeued_message'] = bool(same)
    if dec:
        ok = dec[0][2] == 'ok'
        c['a_message_is_decoded_at_most_once'] = len(dec) == 1 and len(mrecv) == 1
        if ok and r['klass'] is not None:
            c['a_decodable_message_is_handed_to_its_handler_unless_a_kill_preempts'] = len(hstart) == 1 or killed
        if not ok:
            c['an_undecodable_message_reaches_no_handler'] = len(hstart) == 0
    return c


def run_one(sub, prog, runtime, budget):
    I1, a1, pm = lt.explore_process_message(prog, runtime, budget, loop_status=(2, 4))
    sub.absorb(I1)
    sub.paths += len(pm)
    tag = 'dequeue.%s.p%d' % (runtime, budget)
    seen = set()
    for k, r in enumerate(pm):
        c = claims_of(r)
        lp.record(sub, '%s.path%d' % (tag, k), r['state'], c, 'C02.dequeue',
                  sample={'layer': 'L1 process_message', 'class': r['klass'], 'callbacks': [e[1:3] for e in r['cbs']]},
                  on_cex=lambda m: replay(tag))
        tr = r['state'].trace
        if any(e[0] == 'CBARG' for e in tr):
            seen.add('handled')
        if any(e[0] == 'DECODE' and e[2] != 'ok' for e in tr):
            seen.add('undecodable')
        if any(e[0] == 'MSGKIND' and e[1] == 'marker' for e in tr):
            seen.add('drain_marker')
    for w in ('handled', 'undecodable', 'drain_marker'):
        sub.note_witness('C02.%s.%s_path_exists' % (tag, w), w in seen)
    sub.extra.setdefault('dequeue', []).append({'runtime': runtime, 'poll_budget': budget, 'paths': len(pm)})


def replay(tag):
    import C02_dequeue_replay
    return C02_dequeue_replay.replay('ThreadLocal' in tag)


def job(sub, runtime, budget):
    prog, info = lc.load()
    run_one(sub, prog, runtime, budget)


def instances(tier):
    if tier == 'quick':
        return [('ActorRuntime', 1), ('ThreadLocalActorRuntime', 1)]
    return [('ActorRuntime', 1), ('ActorRuntime', 2), ('ThreadLocalActorRuntime', 1)]


# ---------------------------------------------------------------------------------------------------------------- C07: the loop side of a drain
def drain_claims(r):
    """C07: the drain marker, once dequeued, ends the loop gracefully with reason "Drained" without running a handler; nothing else produces that reason"""
    tr = r['state'].trace
    mrecv = [e for e in tr if e[0] == 'RECV' and e[1] == 'msgq']
    marker = bool(mrecv) and any(e[0] == 'MSGKIND' and e[1] == 'marker' for e in tr)
    lr = r.get('loop_result')
    reason = lr['exit_reason'] if lr else None
    drained = isinstance(reason, Enum) and reason.variant == 'Some' and isinstance(reason.fields[0], Str) and reason.fields[0].s == 'Drained'
    c = {}
    if r['klass'] is None:
        return c, marker
    if marker:
        killed = r['klass'][0] == 'killed'
        c['the_drain_marker_stops_the_loop_gracefully_with_reason_Drained'] = killed or (r['klass'] == ('stop', None) and drained)
        c['the_drain_marker_runs_no_handler'] = not any(e[0] == 'CB' and e[1] == 'start' for e in tr)
    if drained:
        c['only_the_drain_marker_produces_the_reason_Drained'] = marker
    return c, marker


def drain_job(sub, runtime, budget):
    prog, info = lc.load()
    # the loop runs while the actor is Running / Upgrading / Draining: the status it may read about itself is any of those
    I1, a1, pm = lt.explore_process_message(prog, runtime, budget, loop_status=(2, 4))
    sub.absorb(I1)
    sub.paths += len(pm)
    tag = 'loop.%s.p%d' % (runtime, budget)
    seen = False
    for k, r in enumerate(pm):
        c, marker = drain_claims(r)
        seen = seen or (marker and r['klass'] == ('stop', None))
        if c:
            lp.record(sub, '%s.path%d' % (tag, k), r['state'], c, 'C07.loop', sample={'layer': 'L1 process_message', 'class': r['klass']}, on_cex=lambda m: replay(tag))
    sub.note_witness('C07.%s.marker_path_exists' % tag, seen)
    sub.extra.setdefault('loop_side', []).append({'runtime': runtime, 'poll_budget': budget, 'paths': len(pm)})
