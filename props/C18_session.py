"""C18, engine-M slice: `NodeServerState::check_session` - the entry point of the re-check a session makes (it identifies the asking session by the peer name and
connection nonce it announced, then delegates to `check_candidate`).

From the states of the candidate slice (2..3 sessions, accepting / initiating, nonce none / 7 / 9, any subset authenticated, local name before / after the
peer's), for every (name, nonce) some session announced:
  * a unique match is answered exactly as `check_candidate` answers that session;
  * a check made on behalf of the only authenticated link of a peer never tells it to stop: if every authenticated session of that peer is among the sessions
    that announced this (name, nonce) - at most one of them -, the answer is "no other connection" or "this connection continues", however many unauthenticated
    connections claim the same name and nonce ("an unauthenticated connection can neither displace nor veto")."""
import itertools
import z3

import cluster as cl
import lifeprops as lp
import models_std
import C17_gates as gates
import C18_candidate as cand
from exec import State, Inconclusive
from values import *

FN = 'NodeServerState::check_session'
_memo = {}
_replayed = {}


def ask_session(ctx, prog, body, sessions, auth, name, nonce, this):
    key = (sessions, tuple(sorted(auth)), name, nonce, this)
    if key in _memo:
        return _memo[key]
    I = gates.session_interp(prog, effects=False)
    st = State()
    sc = st.alloc(cand.mk_state(prog, I, st, sessions, auth, this))
    nm = cl.record(prog, 'NameMessage', 'out/auth.rs', name=Str(name), connection_id=I.mk_int(nonce, 'u64'), connection_string=Str('peer:1'), flags=models_std.NONE)
    outs = I.run_body(st, body, [Ref(sc, ()), Ref(st.alloc(nm), ())])
    ctx.absorb(I)
    ctx.paths += len(outs)
    if len(outs) != 1 or outs[0].kind != 'ret' or not isinstance(outs[0].val, Enum):
        raise Inconclusive('check_session: %d outcomes / %r' % (len(outs), outs[0].kind if outs else None))
    _memo[key] = (outs[0].val.variant, outs[0].st)
    return _memo[key]


def check(ctx, prog):
    body = prog.find_fn(FN)
    cbody = prog.find_fn(cand.FN)
    if body is None or cbody is None:
        raise Inconclusive('check_session / check_candidate not found')
    ctx.encoded(prog, body)
    seen = set()
    for sessions in cand.configs(ctx.tier):
        ids = [k for k, _ in sessions]
        for r in range(len(ids) + 1):
            for auth in itertools.combinations(ids, r):
                for this in ('athis', 'this'):
                    for (name, nonce) in sorted({(s[2], s[1]) for _, s in sessions}):
                        matching = [k for k, s in sessions if s[2] == name and s[1] == nonce]
                        auth_peer = [k for k, s in sessions if k in auth and s[2] == name]
                        tag = '%s.auth%s.%s.ask_%s_%d' % ('_'.join('%s%d%s' % ('S' if s[0] else 'C', s[1], '' if s[2] == 'peer' else 'x') for _, s in sessions), ''.join(map(str, auth)) or '-', this, name, nonce)
                        rp = {'sessions': [[k, [bool(s[0]), s[1], s[2]]] for k, s in sessions], 'auth': list(auth), 'name': name, 'nonce': nonce, 'this': this}
                        cex = (lambda rp=rp: (lambda m: replay(rp)))()
                        reply, st = ask_session(ctx, prog, body, sessions, auth, name, nonce, this)
                        claims = {}
                        if len(matching) == 1:
                            r2, _ = cand.ask(ctx, prog, cbody, sessions, auth, matching[0], this)
                            claims['a_unique_match_is_answered_as_check_candidate_answers_it'] = reply == r2
                            seen.add('unique')
                        if matching and len(auth_peer) <= 1 and set(auth_peer) <= set(matching) and len(matching) > 1:
                            claims['the_only_authenticated_link_of_a_peer_is_never_told_to_stop'] = reply in ('NoOtherConnection', 'ThisConnectionContinues')
                            seen.add('ambiguous')
                        if claims:
                            lp.record(ctx, 'session.' + tag, st, claims, 'C18.session', sample={'state': rp, 'reply': reply} if len(ctx.samples) < 6 and len(matching) > 1 else None, on_cex=cex)
    ctx.note_witness('C18.session.unique_match_explored', 'unique' in seen)
    ctx.note_witness('C18.session.ambiguous_match_explored', 'ambiguous' in seen)
    ctx.bounds['session'] = 'check_session from the states of the candidate slice, asked with every (peer name, nonce) some session announced'


def replay(rp):
    import json
    import native
    k = json.dumps(rp, sort_keys=True)
    if k in _replayed:
        return _replayed[k]
    import C18_candidate_replay as cr
    sessions, auth = rp['sessions'], rp['auth']
    case = '/'.join(['.'.join('1' if s[1][0] else '0' for s in sessions), '.'.join(str(s[1][1]) for s in sessions), '.'.join(s[1][2] for s in sessions),
                     '.'.join(str(cr.renum(sessions, a)) for a in auth), rp['name'], str(rp['nonce']), rp['this']])
    out, _l, rc, err = native.run('node_check_session', cases=case, timeout=60)
    if rc != 0:
        raise RuntimeError('native node_check_session failed: ' + err[-300:])
    reply = out.get('replies', '')
    matching = [k_ for k_, s in sessions if s[2] == rp['name'] and s[1] == rp['nonce']]
    auth_peer = [k_ for k_, s in sessions if k_ in auth and s[2] == rp['name']]
    bad = []
    if len(matching) == 1:
        want = cr.replies([cr.case(sessions, auth, matching[0], rp['this'])])[0]
        if reply != want:
            bad.append('the unique match is told %s by check_session but %s by check_candidate' % (reply, want))
    if len(matching) > 1 and len(auth_peer) <= 1 and set(auth_peer) <= set(matching) and reply not in ('NoOtherConnection', 'ThisConnectionContinues'):
        bad.append('the only authenticated link of %s is told %s because %d connections claim its name and nonce' % (rp['name'], reply, len(matching)))
    _replayed[k] = {'replayed': bool(bad), 'detail': 'native check_session %s -> %s ; %s' % (rp, reply, bad or 'no violation'), 'replay': {'which': 'session', 'rp': rp}}
    return _replayed[k]
