"""C19, engine-M slice: the frame reader of `ractor_cluster::net::session` as coroutines over an arbitrary reader.

  read_n_bytes(stream, len)        len in 0..4, every split of the payload into reads (each read returns any count up to what was asked, 0 = EOF, or an
                                   I/O error), allocation succeeding or failing
  read_network_message(stream, max) the declared length symbolic: an over-long frame is rejected before any payload read; otherwise exactly that many
                                   payload bytes are read (lengths 0..3) and handed to the decoder
"""
import re
import z3

import cluster as cl
import lifecycle as lc
import lifeprops as lp
import models_std
import models_async
from exec import State, Outcome, Inconclusive, Unmodelled
from values import *

MAXLEN = 4


def new_interp(prog):
    I = cl.new_interp(prog, loop_bound=MAXLEN + 4)
    models_async.install(I, 1)
    I.max_repeat = 16384
    I.allow_slice_copy_mut = True      # the reader model never writes into the buffer it is given (contents are not tracked, only counts)

    @I.model(r'AsyncReadExt>::read(::<.*>)?$|AsyncReadExt::read(::<.*>)?$', 'AsyncReadExt::read: a future over an arbitrary reader (any count up to the buffer size, 0 = EOF, or an error)')
    def m_read(I, st, f, args, fr):
        buf = models_std.deref_val(I, st, args[1])
        return I.ret(st, Agg('ReadFut', (I.mk_int(len(buf.fields), 'usize'),)))

    @I.model(r'AsyncReadExt>::read_u64(::<.*>)?$|AsyncReadExt::read_u64(::<.*>)?$|(^|::)ActorReadHalf::read_u64$', 'read_u64: the declared frame length (any u64) or an error')
    def m_read_u64(I, st, f, args, fr):
        return I.ret(st, Agg('ReadU64Fut', ()))

    @I.model(r'(^|::)io::Error::new(::<.*>)?$', 'io::Error::new (opaque, kind kept)')
    def m_ioerr(I, st, f, args, fr):
        k = args[0]
        return I.ret(st, Opaque('io::Error', ident=('made', getattr(k, 'variant', getattr(k, 'ty', None)))))

    @I.model(r'^<(bytes::)?Bytes as From<Vec<u8>>>::from$', 'Bytes::from(Vec<u8>)')
    def m_bytes(I, st, f, args, fr):
        return I.ret(st, Agg('Bytes', (args[0],)))

    @I.model(r'^<(\w+::)*NetworkMessage as (prost::)?Message>::decode(::<.*>)?$', 'prost decode of the payload (any outcome; decoding itself is C19 engine K / prost)')
    def m_decode(I, st, f, args, fr):
        st.emit('DECODE', args[0])
        s2 = st.fork()
        return [Outcome(st, 'ret', models_std.ok(Opaque('NetworkMessage', ident='decoded'))), Outcome(s2, 'ret', models_std.err(Opaque('DecodeError')))]
    prev = I.hooks.get('poll_other')

    def poll_other(I, st, v, cell, path, cx, fr):
        if isinstance(v, Agg) and v.ty == 'ReadFut':
            cap = v.fields[0].concrete()
            outs = []
            for n in range(0, cap + 1):
                s1 = st.fork()
                s1.emit('READ', cap, n)
                outs.append(Outcome(s1, 'ret', models_std.ready(models_std.ok(I.mk_int(n, 'usize')))))
            st.emit('READ_ERR', cap)
            outs.append(Outcome(st, 'ret', models_std.ready(models_std.err(Opaque('io::Error', ident='io-error')))))
            return outs
        if isinstance(v, Agg) and v.ty == 'ReadU64Fut':
            s2 = st.fork()
            s2.emit('LEN_ERR')
            return [Outcome(st, 'ret', models_std.ready(models_std.ok(st.ghost['wire_len']))), Outcome(s2, 'ret', models_std.ready(models_std.err(Opaque('io::Error', ident='io-error'))))]
        return prev(I, st, v, cell, path, cx, fr) if prev else None
    I.hooks['poll_other'] = poll_other
    return I


def drive(I, st, cc, polls=3):
    frontier, done = [(st, 0)], []
    while frontier:
        s, n = frontier.pop()
        for o in lc.poll_coro(I, s, cc):
            if o.kind != 'ret' or o.val.variant == 'Ready':
                done.append(o)
            elif n < polls:
                frontier.append((o.st, n + 1))
            else:
                raise Inconclusive('frame reader did not complete')
    return done


def payload_claims(tr, want_len, res, kind):
    reads = [e for e in tr if e[0] == 'READ']
    errs = [e for e in tr if e[0] == 'READ_ERR']
    alloc = [e for e in tr if e[0] == 'ALLOC_FAILED']
    c = {'completes_without_panic': kind == 'ret'}
    got = 0
    asks_ok = True
    for e in [x for x in tr if x[0] in ('READ', 'READ_ERR')]:
        left = want_len - got
        # asking for more than the frame still needs would swallow the next frame's bytes; asking for nothing while bytes are missing reads 0 = false EOF
        asks_ok = asks_ok and e[1] <= min(left, 8192) and (e[1] > 0 or left == 0)
        if e[0] == 'READ':
            got += e[2]
    c['never_asks_for_more_than_the_frame_still_needs'] = asks_ok
    if kind == 'ret' and res is not None and res.variant == 'Ok':
        c['a_complete_frame_is_returned_whatever_the_split'] = got == want_len and not errs and not alloc
    elif kind == 'ret' and res is not None:
        e = res.fields[0]
        ident = getattr(e, 'ident', None)
        last = [x for x in tr if x[0] in ('READ', 'READ_ERR', 'ALLOC_FAILED')][-1:]
        if ident == ('made', 'UnexpectedEof'):
            c['eof_only_when_the_reader_returned_zero'] = bool(last) and last[0][0] == 'READ' and last[0][1] > 0 and last[0][2] == 0
        elif ident == 'io-error':
            c['io_error_only_from_the_reader'] = bool(last) and last[0][0] == 'READ_ERR'
        elif ident == ('made', 'InvalidData'):
            c['invalid_data_only_on_allocation_failure'] = bool(last) and last[0][0] == 'ALLOC_FAILED'
        else:
            c['known_error'] = False
    return c, got


def check(ctx, prog):
    fn = 'read_n_bytes'
    body = prog.find_fn(fn)
    if body is None:
        raise Inconclusive('read_n_bytes not found')
    ctx.encoded(prog, body)
    seen = set()
    for want in range(0, MAXLEN + 1):
        I = new_interp(prog)
        st = State()
        stream = cl.variant(prog, 'ActorReadHalf', 'External', (BoxV(st.alloc(Opaque('reader')), 'Box'),))
        sc = st.alloc(stream)
        st, coro = lc.make_coro(I, st, prog, fn, [Ref(sc, (), True), I.mk_int(want, 'usize')])
        cc = st.alloc(coro)
        done = drive(I, st, cc)
        ctx.absorb(I)
        ctx.paths += len(done)
        for k, o in enumerate(done):
            name = 'read_n_bytes.len%d.path%d' % (want, k)
            res = o.val.fields[0] if o.kind == 'ret' else None
            claims, got = payload_claims(o.st.trace, want, res, o.kind)
            reads = [e[2] for e in o.st.trace if e[0] == 'READ']
            if res is not None and res.variant == 'Ok' and len(reads) > 1:
                seen.add('fragmented_frame_accepted')
            if res is not None and res.variant == 'Err':
                seen.add('error_path')
            lp.record(ctx, name, o.st, claims, 'C19.stream', sample={'len': want, 'reads': reads, 'result': res.variant if res is not None else o.kind} if len(reads) > 1 and k < 8 else None,
                      on_cex=lambda m, want=want, reads=tuple(reads): replay(want, reads))
    # the whole frame: declared length first
    fn2 = 'read_network_message'
    body2 = prog.find_fn(fn2)
    if body2 is None:
        raise Inconclusive('read_network_message not found')
    ctx.encoded(prog, body2)
    b3 = prog.find_fn('checked_frame_length')
    if b3 is not None:
        ctx.encoded(prog, b3)
    for small in (None, 0, 1, 2, 3):
        I = new_interp(prog)
        st = State()
        mx = I.fresh_int('max_frame_size', 'u64', st)
        if small is None:
            wl = I.fresh_int('wire_length', 'u64', st)
            st.assume(z3.UGT(wl.t, mx.t))
        else:
            wl = I.mk_int(small, 'u64')
            st.assume(z3.UGE(mx.t, wl.t))
        st.ghost['wire_len'] = wl
        stream = cl.variant(prog, 'ActorReadHalf', 'External', (BoxV(st.alloc(Opaque('reader')), 'Box'),))
        sc = st.alloc(stream)
        st, coro = lc.make_coro(I, st, prog, fn2, [Ref(sc, (), True), mx])
        cc = st.alloc(coro)
        done = drive(I, st, cc, 4)
        ctx.absorb(I)
        ctx.paths += len(done)
        for k, o in enumerate(done):
            name = 'read_network_message.%s.path%d' % ('too_long' if small is None else 'len%d' % small, k)
            res = o.val.fields[0] if o.kind == 'ret' else None
            reads = [e for e in o.st.trace if e[0] in ('READ', 'READ_ERR')]
            dec = [e for e in o.st.trace if e[0] == 'DECODE']
            cex = lambda m, small=small: replay(small if small is not None else -1, ())
            if small is None:
                claims = {'over_long_frame_is_rejected_before_any_payload_read': o.kind == 'ret' and res.variant == 'Err' and not reads and not dec}
                seen.add('too_long_rejected')
            else:
                claims, got = payload_claims(o.st.trace, small, None, o.kind)
                claims['decoder_gets_exactly_the_declared_number_of_bytes'] = all(isinstance(e[1], Agg) and len(e[1].fields[0].fields) == small for e in dec) and len(dec) <= 1
                claims['message_only_from_a_complete_decoded_frame'] = (res is None or res.variant != 'Ok') or (len(dec) == 1 and got == small)
                if res is not None and res.variant == 'Ok':
                    seen.add('frame_decoded')
            lp.record(ctx, name, o.st, claims, 'C19.stream', on_cex=cex)
    for w in ('fragmented_frame_accepted', 'error_path', 'too_long_rejected', 'frame_decoded'):
        ctx.note_witness('C19.stream.' + w, w in seen)
    check_reader_actor(ctx, prog)
    # the same reader actor on the real build over scripted streams (every run: ties the model of the reader environment to the real AsyncRead path)
    try:
        r = replay_reader(None)
        ctx.translator_validated += 24
        ctx.extra['reader_actor_native_battery'] = r['detail']
        if r['replayed']:
            rec = {'name': 'reader_actor.native_battery', 'group': 'C19.stream.reader_actor', 'solver_s': 0.0, 'status': 'cex'}
            ctx.obligations.append(rec)
            ctx.handle_cex(rec['name'], 'C19.stream.reader_actor.native', None, lambda _m: r, rec)
    except RuntimeError as e:
        ctx.inconclusive.append('reader actor native battery unavailable: %s' % str(e)[-300:])


_replayed = {}


def replay(want, reads):
    import C19_stream_replay
    k = (want, tuple(reads))
    if k not in _replayed:
        _replayed[k] = C19_stream_replay.replay(want, reads)
    return _replayed[k]


def check_reader_actor(ctx, prog):
    """SessionReader::handle(WaitForObject): whatever read_network_message returns, the reader actor itself is not harmed (Ok(()), no unwind); a frame goes to
    the session exactly once and the reader re-arms; a framing error or EOF closes the stream and stops *this* reader with a reason - nothing else"""
    cands = [b for n, b in prog.bodies.items() if n.endswith('::handle') and (prog.impl_of.get(n) or {}).get('self_ty') == 'SessionReader']
    if len(cands) != 1:
        raise Inconclusive('SessionReader::handle not found (%d candidates)' % len(cands))
    ctx.encoded(prog, cands[0])
    seen = set()
    for result in ('ok', 'eof', 'other', 'no_reader'):
        I = new_interp(prog)

        @I.model(r'(^|::)ActorRef::<.*>::cast$|(^|::)<impl (\w+::)*ActorRef<.*>>::cast$', 'ActorRef::cast: recorded (succeeds or the target is gone)')
        def m_cast(I, st, f, args, fr):
            s2 = st.fork()
            tgt = models_std.deref_val(I, st, args[0])
            st.emit('CAST', getattr(tgt, 'ident', None), args[1], 'ok')
            s2.emit('CAST', getattr(tgt, 'ident', None), args[1], 'refused')
            return [Outcome(st, 'ret', models_std.ok(UNIT)), Outcome(s2, 'ret', models_std.err(Opaque('MessagingErr')))]

        @I.model(r'(^|::)ActorRef::<.*>::stop$|(^|::)ActorCell::stop$', 'ActorCell::stop: recorded')
        def m_stop(I, st, f, args, fr):
            tgt = models_std.deref_val(I, st, args[0])
            st.emit('STOP', getattr(tgt, 'ident', None), args[1])
            return I.ret(st, UNIT)

        @I.model(r'^<(\w+::)*ActorRef<.*> as Deref>::deref$', 'Deref of ActorRef: same place')
        def m_deref(I, st, f, args, fr):
            return I.ret(st, args[0])

        def m_rnm(I, st, f, args, fr):
            st.emit('READ_FRAME')
            if result == 'ok':
                return I.ret(st, Agg('ReadyFut', (models_std.ok(Opaque('NetworkMessage', ident='the-frame')),)))
            kind = 'UnexpectedEof' if result == 'eof' else 'InvalidData'
            return I.ret(st, Agg('ReadyFut', (models_std.err(Opaque('io::Error', ident=('made', kind))),)))
        I.override.append((re.compile(r'(^|::)read_network_message$'), m_rnm))

        @I.model(r'(^|::)io::Error::kind$|^std::io::Error::kind$', 'io::Error::kind of the reader errors made here')
        def m_kind(I, st, f, args, fr):
            e = models_std.deref_val(I, st, args[0])
            k = e.ident[1] if isinstance(e, Opaque) and isinstance(e.ident, tuple) else None
            if k is None:
                raise Unmodelled('kind of %r' % (e,))
            return I.ret(st, Enum('ErrorKind', k, None, ()))
        prev = I.hooks.get('poll_other')

        def poll_other(I, st, v, cell, path, cx, fr, prev=prev):
            if isinstance(v, Agg) and v.ty == 'ReadyFut':
                return [Outcome(st, 'ret', models_std.ready(v.fields[0]))]
            return prev(I, st, v, cell, path, cx, fr) if prev else None
        I.hooks['poll_other'] = poll_other
        st = State()
        stream = cl.variant(prog, 'ActorReadHalf', 'External', (BoxV(st.alloc(Opaque('reader')), 'Box'),))
        state = cl.record(prog, 'SessionReaderState', reader=models_std.NONE if result == 'no_reader' else models_std.some(stream))
        sc = st.alloc(state)
        me = cl.record(prog, 'SessionReader', session=Opaque('ActorRef', ident='the-session'), max_inbound_frame_size=I.fresh_int('max_frame', 'u64', st))
        mc = st.alloc(me)
        msg = cl.variant(prog, 'SessionReaderMessage', 'WaitForObject', ())
        outs0 = I.run_body(st, cands[0], [Ref(mc, ()), Opaque('ActorRef', ident='myself'), msg, Ref(sc, (), True)])
        if len(outs0) != 1 or outs0[0].kind != 'ret' or not isinstance(outs0[0].val, Coro):
            raise Inconclusive('SessionReader::handle did not return a coroutine')
        st = outs0[0].st
        cc = st.alloc(outs0[0].val)
        done = drive(I, st, cc, 3)
        ctx.absorb(I)
        ctx.paths += len(done)
        for k, o in enumerate(done):
            name = 'reader_actor.%s.path%d' % (result, k)
            tr = o.st.trace
            casts = [e for e in tr if e[0] == 'CAST']
            stops = [e for e in tr if e[0] == 'STOP']
            to_session = [e for e in casts if e[1] == 'the-session']
            rearm = [e for e in casts if e[1] == 'myself']
            rd = o.st.cells[sc].fields[prog.crate.struct('SessionReaderState')['fields'].index('reader')]
            reader_kept = isinstance(rd, Enum) and rd.variant == 'Some'
            res = o.val.fields[0] if o.kind == 'ret' and isinstance(o.val, Enum) and o.val.fields else None
            claims = {'reader_actor_is_not_harmed': o.kind == 'ret' and isinstance(res, Enum) and res.variant == 'Ok'}
            if result == 'ok':
                fwd = [e for e in to_session if isinstance(e[2], Enum) and e[2].variant == 'ObjectAvailable' and getattr(e[2].fields[0], 'ident', None) == 'the-frame']
                claims['frame_goes_to_the_session_exactly_once'] = len(to_session) == 1 and len(fwd) == 1
                claims['reader_rearms_and_stays'] = len(rearm) == 1 and not stops and reader_kept
                seen.add('frame')
            else:
                want_reason = {'eof': 'channel_closed', 'other': 'frame_read_error', 'no_reader': 'channel_closed'}[result]
                reason = stops[0][2] if stops else None
                rs = reason.fields[0].s if isinstance(reason, Enum) and reason.variant == 'Some' and isinstance(reason.fields[0], Str) else None
                claims['framing_error_stops_this_reader_only'] = len(stops) == 1 and stops[0][1] == 'myself' and not to_session and not rearm
                claims['stream_is_closed'] = not reader_kept
                claims['stop_reason_tells_eof_from_a_bad_frame'] = rs == want_reason
                seen.add(result)
            lp.record(ctx, name, o.st, claims, 'C19.stream.reader_actor', on_cex=lambda m, result=result: replay_reader(result))
    for w in ('frame', 'eof', 'other', 'no_reader'):
        ctx.note_witness('C19.stream.reader_actor.' + w, w in seen)


def replay_reader(result):
    import C19_stream_replay
    return C19_stream_replay.replay_reader(result)
