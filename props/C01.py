"""C01 - One handler at a time, in lifecycle order (sequential mode over the lowered coroutines of the actor lifecycle)."""
import lifecycle as lc
import lifeprops as lp
import lifeoracles as lo
import actor_run as ar
from exec import Inconclusive


def job(sub, runtime, budget, with_sup):
    prog, info = lc.load()
    I1, a1, pm, S, I, a, res = lp.explore(sub, prog, runtime, budget, with_sup)
    tag = '%s.p%d.%s' % (runtime, budget, 'sup' if with_sup else 'nosup')
    seen = set()
    for k, r in enumerate(pm):
        claims = lo.order_claims(r['state'].trace, False)
        starts = [e for e in r['cbs'] if e[1] == 'start']
        claims['at_most_one_callback_per_iteration'] = len(starts) <= 1
        claims = {c: v for c, v in claims.items() if c in ('callbacks_never_overlap', 'at_most_one_callback_per_iteration')}
        # an iteration that consumed the kill signal must end the loop as killed (that is what keeps post_stop from running: L2 only sees the class)
        kill_taken = any(e[1] == 'sigq' for e in r['recvs'])
        if r['klass'] is not None:
            claims['kill_signal_ends_the_loop_as_killed'] = (not kill_taken) or r['klass'][0] == 'killed'
        lp.record(sub, '%s.iteration.path%d' % (tag, k), r['state'], claims, 'C01.iteration',
                  sample={'layer': 'L1 process_message', 'class': r['klass'], 'callbacks': [e[1:3] for e in r['cbs']]},
                  on_cex=lambda m, r=r: replay(tag, iteration_as_lifecycle(r)))
        lp.kill_preemption(sub, '%s.iteration.path%d' % (tag, k), r['state'], 'C01.iteration', on_cex=lambda m, r=r: replay_preempt(tag, iteration_as_lifecycle(r)))
        lp.kill_look_before_every_callback(sub, '%s.iteration.path%d' % (tag, k), r['state'], 'C01.iteration', on_cex=lambda m: replay_window())
    for k, r in enumerate(res):
        complete = r['kind'] == 'ready'
        if r['kind'] in ('unwind', 'abort'):
            complete = True
        claims = lo.order_claims(r['state'].trace, complete)
        summ = ar.summarize(r['state'])
        lp.record(sub, '%s.life.path%d' % (tag, k), r['state'], claims, 'C01.lifecycle',
                  sample={'layer': 'L2 start+task', 'phase': r['phase'], 'trace': [list(x) for x in summ if x[0] in ('CB', 'SUPEVT', 'TASKEND')][:14]},
                  on_cex=lambda m, r=r: replay(tag, r['state'].trace))
        if lp.kill_preemption(sub, '%s.life.path%d' % (tag, k), r['state'], 'C01.lifecycle', on_cex=lambda m, r=r: replay_preempt(tag, r['state'].trace)):
            seen.add('callback_in_a_later_poll')
        # (the handlers inside an L2 path are the L1 summary: their own look at the kill port is the L1 claim above)
        lp.kill_look_before_every_callback(sub, '%s.life.path%d' % (tag, k), r['state'], 'C01.lifecycle', skip=('handle', 'handle_supervisor_evt', 'handle_serialized'), on_cex=lambda m: replay_window())
        exits = [e[1] for e in r['state'].trace if e[0] == 'LOOPEXIT']
        ends = [(e[2], e[4]) for e in r['state'].trace if e[0] == 'CB' and e[1] == 'end']
        if exits == ['stop'] and ('post_stop', 'ok') in ends:
            seen.add('graceful_exit_with_post_stop')
        if exits == ['killed']:
            seen.add('killed_without_post_stop')
        if ('handle', 'ok') in ends and ('handle', 'panic') in ends:
            seen.add('second_handler_panics')
        if r['phase'] == 'start' and ('pre_start', 'err') in ends:
            seen.add('pre_start_fails')
        if any(e[0] == 'CB' and e[1] == 'cancelled' and e[2] == 'post_start' for e in r['state'].trace):
            seen.add('killed_during_post_start')
    sub.extra.setdefault('seen', {})[tag] = sorted(seen)
    for w in ('graceful_exit_with_post_stop', 'killed_without_post_stop', 'second_handler_panics', 'pre_start_fails', 'killed_during_post_start'):
        sub.note_witness('C01.%s.%s' % (tag, w), w in seen)


def iteration_as_lifecycle(r):
    """a whole-lifecycle trace around one L1 iteration (for the native scripted actor): successful start, the iteration's callbacks, and the exit the
    property demands for it"""
    pre = [('CB', 'start', 'pre_start', -1), ('CB', 'end', 'pre_start', -1, 'ok'), ('START_OK',), ('CB', 'start', 'post_start', -2), ('CB', 'end', 'post_start', -2, 'ok')]
    kill_taken = any(e[1] == 'sigq' for e in r['recvs'])
    exits = [('LOOPEXIT', 'killed')] if kill_taken else [e for e in r['state'].trace if e[0] == 'LOOPEXIT']
    return pre + list(r['cbs']) + exits


def replay(tag, trace):
    import life_replay
    return life_replay.replay_trace(tag, trace, 'C01')


def replay_window():
    import life_replay
    return life_replay.replay_kill_window()


def replay_preempt(tag, trace):
    import life_replay
    return life_replay.replay_kill_preemption()


def run(ctx):
    prog, info = lc.load()
    insts = lp.instances(ctx.tier)
    for rt in sorted({i[0] for i in insts}):
        lp.encoded(ctx, prog, rt)
    ctx.bounds.update(lp.COMMON_BOUNDS)
    ctx.bounds['instances'] = [dict(zip(('runtime', 'poll_budget', 'supervisor'), i)) for i in insts]
    ctx.assumptions += lp.COMMON_ASSUMPTIONS
    ctx.parallel(job, insts)


def replay_file(path):
    import json
    import life_replay
    return life_replay.replay_from_json(json.load(open(path)))
