"""native replay for the C19 stream slice: the real read_n_bytes over a reader that delivers the stream in the pieces of the counterexample (and in a fixed
battery of other splits)"""
import native


def run_native(want, total, chunks):
    out, _l, rc, err = native.run('read_n', len=want, total=total, chunks=list(chunks), timeout=30)
    if rc != 0:
        raise RuntimeError('native read_n failed: ' + err[-300:])
    return out


def replay(want, reads):
    bad, obs = [], {}
    want = max(want, 0)
    splits = []
    if reads and all(r > 0 for r in reads) and sum(reads) >= want:
        splits.append(tuple(reads))
    # every split of a short frame into two pieces, and byte by byte
    for n in sorted({want, 1, 2, 3, 5, 16}):
        if n <= 0:
            continue
        for cut in range(1, n):
            splits.append((cut, n - cut))
        splits.append(tuple([1] * n))
    for sp in splits:
        n = sum(sp)
        out = run_native(n, n + 4, sp)
        obs[str(sp)] = dict(out)
        if out.get('result') != 'ok' or out.get('n') != str(n) or out.get('intact') != '1':
            bad.append('a %d byte frame delivered as %s was not returned intact: %s' % (n, list(sp), dict(out)))
    out = run_native(3, 2, (1, 1))
    obs['eof'] = dict(out)
    if out.get('result') != 'err' or out.get('kind') != 'UnexpectedEof':
        bad.append('a stream that ends inside the frame must give UnexpectedEof: %s' % dict(out))
    return {'replayed': bool(bad), 'detail': 'native read_n_bytes over fragmented streams: %s ; %d splits tried' % (bad, len(splits)), 'replay': {'which': 'stream', 'want': want, 'reads': list(reads)}}
