"""native replay for the C19 stream slice: the real read_n_bytes over a reader that delivers the stream in the pieces of the counterexample (and in a fixed
battery of other splits)"""
import native


def run_native(want, total, chunks):
    out, _l, rc, err = native.run('read_n', len=want, total=total, chunks=list(chunks), timeout=30)
    if rc != 0:
        raise RuntimeError('native read_n failed: ' + err[-300:])
    return out


def replay(want, reads):
    bad, obs = [], {}
    want = max(want, 0)
    splits = []
    if reads and all(r > 0 for r in reads) and sum(reads) >= want:
        splits.append(tuple(reads))
    # every split of a short frame into two pieces, and byte by byte
    for n in sorted({want, 1, 2, 3, 5, 16}):
        if n <= 0:
            continue
        for cut in range(1, n):
            splits.append((cut, n - cut))
        splits.append(tuple([1] * n))
    for sp in splits:
        n = sum(sp)
        out = run_native(n, n + 4, sp)
        obs[str(sp)] = dict(out)
        if out.get('result') != 'ok' or out.get('n') != str(n) or out.get('intact') != '1':
            bad.append('a %d byte frame delivered as %s was not returned intact: %s' % (n, list(sp), dict(out)))
    out = run_native(3, 2, (1, 1))
    obs['eof'] = dict(out)
    if out.get('result') != 'err' or out.get('kind') != 'UnexpectedEof':
        bad.append('a stream that ends inside the frame must give UnexpectedEof: %s' % dict(out))
    return {'replayed': bool(bad), 'detail': 'native read_n_bytes over fragmented streams: %s ; %d splits tried' % (bad, len(splits)), 'replay': {'which': 'stream', 'want': want, 'reads': list(reads)}}


def replay_reader(result=None):
    """the real SessionReader actor over scripted streams: every valid frame in front of the fault reaches the session however the stream is cut, the fault stops
    the reader (and only the reader)"""
    bad, obs = [], {}
    cases = [('eof_between_frames', 2, [], 2), ('eof_inside_header', 2, [0, 0, 0], 2), ('eof_inside_payload', 1, [0, 0, 0, 0, 0, 0, 0, 9, 1, 2], 1),
             ('over_long_frame', 2, [255] * 8 + [1, 2, 3], 2), ('undecodable_frame', 1, [0, 0, 0, 0, 0, 0, 0, 2, 255, 255], 1), ('no_fault', 3, [], 3)]
    for label, good, tail, want in cases:
        for piece in (1, 3, 7, 4096):
            out, _l, rc, err = native.run('reader_actor', good=good, tail=tail, piece=piece, max=65536, timeout=30)
            if rc != 0:
                raise RuntimeError('native reader_actor failed: ' + err[-300:])
            out = dict(out)
            obs['%s/%d' % (label, piece)] = out
            if out.get('frames') != str(want):
                bad.append('%s, pieces of %d: %s of %d valid frames reached the session' % (label, piece, out.get('frames'), want))
            if out.get('reader_status') != 'Stopped':
                bad.append('%s, pieces of %d: the reader is %s after the stream ended' % (label, piece, out.get('reader_status')))
            if out.get('session_alive') != '1':
                bad.append('%s, pieces of %d: the session actor did not survive' % (label, piece))
    return {'replayed': bool(bad), 'detail': 'native SessionReader over scripted streams: %s' % (bad[:4] or 'no violation in %d runs' % len(obs)), 'replay': {'which': 'reader_actor'}}
