"""C09 - Every RPC completes and replies are never cross-wired (sequential mode over the call coroutines, virtual timer).

The real `rpc::call`, `DerivedActorRef::call`, `rpc::call_and_forward` (MIR, incl. `internal_call`, the `From` impls of `RpcReplyPort`,
`RpcReplyPort::send`) run against an environment that may, before every poll of the reply receiver, have sent a value on the reply
sender, dropped it, or done nothing; the timer may elapse at any poll that found nothing."""
import re
import z3

import lifecycle as lc
import lifeprops as lp
import models_std
import objects
from exec import State, Outcome, Inconclusive, Unmodelled, val_key
from values import *


def new_interp(prog):
    I = lc.new_interp(prog, poll_budget=0, loop_bound=4)
    I.objinfo = {}

    def send_message(I, st, f, args, fr):
        okk = I.fresh_bool('send_ok')
        target = models_std.deref_val(I, st, args[0])
        while isinstance(target, Agg) and target.fields and isinstance(target.fields[0], (Agg, BoxV, Ref)):
            target = models_std.deref_val(I, st, target.fields[0])
        st.emit('SEND', args[1], okk, getattr(target.fields[0], 'ident', None) if isinstance(target, Agg) and target.fields else getattr(target, 'ident', None))
        outs = []
        for s2, succ in models_std.branch(I, st, okk):
            outs.append(Outcome(s2, 'ret', models_std.ok(UNIT) if succ else models_std.err(Enum('MessagingErr', 'SendErr', 0, (args[1],)))))
        return outs
    I.override.append((re.compile(r'(^|::)ActorCell::send_message(::<.*>)?$|DerivedActorRef::<.*>::send_message$|DerivedActorRef::send_message$'), send_message))

    def call_opaque(I, st, callee, args, fr):
        if callee.ident == 'builder':
            # user message builder: the message carries the reply port it was given
            st.emit('BUILD', args[0])
            return I.ret(st, Opaque('msg', ident=('msg', fresh_id()), info=args[0]))
        if callee.ident == 'forward-map':
            st.emit('MAP', args[0])
            return I.ret(st, Opaque('fwd-msg', ident=('fwd', fresh_id()), info=args[0]))
        raise Unmodelled('opaque call %r' % (callee,))
    I.hooks['call_opaque'] = call_opaque

    @I.model(r'^tokio::time::timeout(::<.*>)?$', 'tokio::time::timeout (virtual: elapses at any poll that found the inner future pending, never before the first poll of it)')
    def m_timeout(I, st, f, args, fr):
        st.emit('TIMEOUT_NEW', args[0])
        return I.ret(st, Agg('TokioTimeout', (args[0], args[1])))

    @I.model(r'^tokio::spawn(::<.*>)?$', 'tokio::spawn (future driven by the harness)')
    def m_spawn(I, st, f, args, fr):
        c = st.alloc(args[0])
        st.ghost['spawned'] = st.ghost.get('spawned', ()) + (c,)
        return I.ret(st, Agg('JoinHandle', (I.mk_int(c, 'usize'),)))

    # ---- tokio JoinSet: a set of tasks; join_next completes with the result of any one task that is ready
    @I.model(r'(^|::)JoinSet::<.*>::new$', 'JoinSet::new')
    def m_js_new(I, st, f, args, fr):
        return I.ret(st, Agg('JoinSet', ()))

    @I.model(r'(^|::)JoinSet::<.*>::spawn(::<.*>)?$', 'JoinSet::spawn (task driven through join_next)')
    def m_js_spawn(I, st, f, args, fr):
        r = args[0]
        js = I.read(st, r.cell, r.path)
        c = st.alloc(args[1])
        I.write(st, r.cell, r.path, Agg('JoinSet', js.fields + (I.mk_int(c, 'usize'),)))
        st.emit('JS_SPAWN', c)
        return I.ret(st, Opaque('AbortHandle'))

    @I.model(r'(^|::)JoinSet::<.*>::len$', 'JoinSet::len')
    def m_js_len(I, st, f, args, fr):
        js = models_std.deref_val(I, st, args[0])
        return I.ret(st, I.mk_int(len(js.fields), 'usize'))

    @I.model(r'(^|::)JoinSet::<.*>::join_next$', 'JoinSet::join_next (future)')
    def m_js_join_next(I, st, f, args, fr):
        return I.ret(st, Agg('JoinNext', (args[0],)))
    I.type_drops['JoinSet'] = lambda I, st, v, ref: I.ret(st, UNIT)

    def chan_value(I, st, o, idterm):
        return [(st, Opaque('reply', ident=('reply', o.oid), info=idterm))]
    I.hooks['chan_value'] = chan_value

    def refresh(st, oid):
        """what the callee side may have done to the reply sender since the last poll (monotone: a consumed channel stays consumed)"""
        cur = st.objs[oid]
        n = fresh_id()
        sent = z3.Bool('replied!%d' % n)
        dropped = z3.Bool('port_dropped!%d' % n)
        val = z3.BitVec('reply_val!%d' % n, objects.ID_BITS)
        done = z3.UGE(cur['st'], 1)
        st.objs[oid] = {'st': z3.If(done, cur['st'], z3.If(sent, z3.BitVecVal(1, 2), z3.BitVecVal(0, 2))),
                        'val': z3.If(done, cur['val'], val), 'txdrop': z3.Or(cur['txdrop'], sent, dropped), 'rxclosed': cur['rxclosed']}

    prev = I.hooks.get('poll_other')

    def poll_other(I, st, v, cell, path, cx, fr):
        if isinstance(v, Agg) and v.ty == 'JoinNext':
            r = v.fields[0]
            js = I.read(st, r.cell, r.path)
            if not js.fields:
                return [Outcome(st, 'ret', models_std.ready(models_std.NONE))]
            outs = []
            for i, tc in enumerate(js.fields):
                s1 = st.fork() if i < len(js.fields) - 1 else st
                c = tc.concrete()
                for o in I.poll_at(I, s1, c, (), cx, fr):
                    if o.kind == 'ret' and o.val.variant == 'Ready':
                        cur = I.read(o.st, r.cell, r.path)
                        I.write(o.st, r.cell, r.path, Agg('JoinSet', tuple(x for x in cur.fields if x.concrete() != c)))
                        o.st.emit('JS_DONE', c)
                        outs.append(Outcome(o.st, 'ret', models_std.ready(models_std.some(models_std.ok(o.val.fields[0])))))
                    elif o.kind == 'unwind':
                        cur = I.read(o.st, r.cell, r.path)
                        I.write(o.st, r.cell, r.path, Agg('JoinSet', tuple(x for x in cur.fields if x.concrete() != c)))
                        outs.append(Outcome(o.st, 'ret', models_std.ready(models_std.some(models_std.err(Opaque('JoinError'))))))
                    else:
                        outs.append(o)
            return outs
        if not (isinstance(v, Agg) and v.ty == 'TokioTimeout'):
            return prev(I, st, v, cell, path, cx, fr) if prev else None
        outs = []
        for o in I.poll_at(I, st, cell, path + (1,), cx, fr):
            if o.kind == 'ret' and o.val.variant == 'Ready':
                outs.append(Outcome(o.st, 'ret', models_std.ready(models_std.ok(o.val.fields[0]))))
            elif o.kind == 'ret':
                s2 = o.st.fork()
                s2.emit('ELAPSED', v.fields[0])
                outs.append(Outcome(s2, 'ret', models_std.ready(models_std.err(Agg('Elapsed', ())))))
                outs.append(o)
            else:
                outs.append(o)
        return outs
    I.hooks['poll_other'] = poll_other

    base_poll_oneshot = I.poll_oneshot

    def poll_oneshot(I, st, o, fr):
        if o.oid in st.objs:
            refresh(st, o.oid)
        st.emit('POLL_RX', o.oid)
        return base_poll_oneshot(I, st, o, fr)
    # the dispatcher looks the function up at call time through I
    I.poll_oneshot_env = poll_oneshot
    return I


def drive(I, st, cc, max_polls=3):
    frontier = [(st, 0)]
    done = []
    while frontier:
        s, n = frontier.pop()
        for o in lc.poll_coro(I, s, cc):
            if o.kind != 'ret':
                done.append((o.st, o.kind, o.val, n + 1))
            elif o.val.variant == 'Ready':
                done.append((o.st, 'ready', o.val.fields[0], n + 1))
            elif n + 1 < max_polls:
                frontier.append((o.st, n + 1))
            else:
                done.append((o.st, 'budget', None, n + 1))
    return done


def port_oid(port):
    """oid of the oneshot sender inside an RpcReplyPort value"""
    if isinstance(port, Agg) and port.ty == 'RpcReplyPort':
        for f in port.fields:
            if isinstance(f, Obj) and f.kind == 'oneshot':
                return f.oid
    return None


def port_timeout(prog, port):
    d = prog.crate.struct('RpcReplyPort')
    return port.fields[d['fields'].index('timeout')]


def call_claims(ctx, prog, I, name, s, kind, v, tmo, key, which, replay_args):
    """oracle shared by call / DerivedActorRef::call: v is Result<CallResult<reply>, MessagingErr>"""
    tr = s.trace
    builds = [e for e in tr if e[0] == 'BUILD']
    sends = [e for e in tr if e[0] == 'SEND']
    polls = [e for e in tr if e[0] == 'POLL_RX']
    recvs = [e for e in tr if e[0] == 'RECV']
    timers = [e for e in tr if e[0] == 'TIMEOUT_NEW']
    elapsed = [e for e in tr if e[0] == 'ELAPSED']
    cex = lambda m: replay(which, replay_args)
    claims = {'completes_without_panic': kind in ('ready', 'budget')}
    claims['one_fresh_port_per_call_and_it_is_the_one_sent'] = (len(builds) == 1 and len(sends) == 1 and port_oid(builds[0][1]) is not None
                                                             and isinstance(sends[0][1], Opaque) and sends[0][1].info is builds[0][1])
    if builds:
        pt = port_timeout(prog, builds[0][1])
        claims['port_carries_the_callers_timeout'] = val_key(pt) == val_key(tmo)
    oid = port_oid(builds[0][1]) if builds else None
    claims['only_this_calls_receiver_is_awaited'] = all(e[1] == oid for e in polls)
    if tmo.variant == 'None':
        claims['no_timer_without_timeout'] = not timers
    else:
        claims['timer_uses_exactly_the_callers_timeout'] = len(timers) <= 1 and all(val_key(e[1]) == val_key(tmo.fields[0]) for e in timers)
    if kind == 'ready':
        if v.variant == 'Err':
            # the send failed: the error is handed back, nothing is awaited
            ctx.prove(name + '.err_only_when_send_failed', s.pc, z3.Not(sends[0][2]) if sends else z3.BoolVal(False), group='C09.%s.err_only_when_send_failed' % key, key='C09.' + key, on_cex=cex)
            claims['failed_send_awaits_nothing'] = not polls and not timers
            claims['failed_send_returns_the_message'] = isinstance(v.fields[0], Enum) and v.fields[0].variant == 'SendErr' and v.fields[0].fields[0] is sends[0][1] if sends else False
        else:
            r = v.fields[0]
            ctx.prove(name + '.ok_only_when_send_succeeded', s.pc, sends[0][2] if sends else z3.BoolVal(False), group='C09.%s.ok_only_when_send_succeeded' % key, key='C09.' + key, on_cex=cex)
            if r.variant == 'Success':
                claims['success_carries_the_value_received_on_this_calls_port'] = (len(recvs) == 1 and recvs[0][1] == oid and isinstance(r.fields[0], Opaque)
                                                                                  and r.fields[0].ident == ('reply', oid) and r.fields[0].info is not None
                                                                                  and z3.eq(r.fields[0].info, recvs[0][2]))
            elif r.variant == 'SenderError':
                # the sender is gone and nothing had been sent
                ob = s.objs.get(oid)
                claims['sender_error_only_when_port_dropped_unanswered'] = not recvs and ob is not None
                if ob is not None:
                    ctx.prove(name + '.sender_error_means_dropped_without_reply', s.pc, z3.And(ob['txdrop'], ob['st'] != 1), group='C09.%s.sender_error_means_dropped_without_reply' % key,
                              key='C09.' + key, on_cex=cex)
            elif r.variant == 'Timeout':
                claims['timeout_only_with_timeout_and_elapsed_timer'] = tmo.variant == 'Some' and len(elapsed) == 1 and not recvs
            else:
                claims['known_call_result'] = False
    return claims


def check_call(ctx, prog, fn, which):
    seen = set()
    for with_tmo in (True, False):
        I = new_interp(prog)
        hook_poll(I)
        st = State()
        d = I.fresh_int('timeout_ms', 'u128', st)
        tmo = models_std.some(I.mk_duration(d)) if with_tmo else models_std.NONE
        cell = Agg('ActorCell', (Opaque('target-props', ident='target'),))
        if which == 'derived':
            dd = prog.crate.struct('DerivedActorRef')
            if not dd or sorted(dd['fields']) != ['converter', 'inner']:
                raise Inconclusive('DerivedActorRef fields changed')
            recv = Agg('DerivedActorRef', [Opaque('converter', ident='converter') if k == 'converter' else cell for k in dd['fields']])
        else:
            recv = cell
        st, coro = lc.make_coro(I, st, prog, fn, [Ref(st.alloc(recv), ()), Opaque('builder', ident='builder'), tmo])
        body = prog.find_fn(fn)
        ctx.encoded(prog, body)
        cc = st.alloc(coro)
        res = drive(I, st, cc)
        ctx.absorb(I)
        ctx.paths += len(res)
        for k, (s, kind, v, n) in enumerate(res):
            name = '%s.%s.path%d' % (which, 'timeout' if with_tmo else 'no_timeout', k)
            claims = call_claims(ctx, prog, I, name, s, kind, v, tmo, which, which, {'timeout': with_tmo})
            lp.record(ctx, name, s, claims, 'C09.' + which, sample={'function': fn, 'timeout': with_tmo, 'outcome': kind, 'result': repr(v)[:80], 'events': [e[0] for e in s.trace][:12]},
                      on_cex=lambda m, with_tmo=with_tmo: replay(which, {'timeout': with_tmo}))
            if kind == 'ready' and v.variant == 'Ok':
                seen.add(v.fields[0].variant)
            if kind == 'ready' and v.variant == 'Err':
                seen.add('SendErr')
        for w in ('Success', 'SenderError', 'SendErr') + (('Timeout',) if with_tmo else ()):
            ctx.note_witness('C09.%s.%s.%s' % (which, 'timeout' if with_tmo else 'no_timeout', w), w in seen)


def hook_poll(I):
    """route polls of oneshot receivers through the environment refresh"""
    import models_async  # noqa
    orig = I.poll_at

    def poll_at(I_, st, cell, path, cx, fr, f=''):
        v = I_.read(st, cell, path)
        for _ in range(6):
            if isinstance(v, Ref):
                cell, path = v.cell, v.path
                v = I_.read(st, cell, path)
            elif isinstance(v, BoxV):
                cell, path = v.cell, ()
                v = I_.read(st, cell, path)
            elif isinstance(v, Agg) and v.ty == 'Pin':
                v = v.fields[0]
            else:
                break
        if isinstance(v, Obj) and v.kind == 'oneshot':
            return I_.poll_oneshot_env(I_, st, v, fr)
        return orig(I_, st, cell, path, cx, fr, f)
    I.poll_at = poll_at


def check_forward(ctx, prog):
    fn = 'rpc::call_and_forward'
    body = prog.find_fn(fn)
    if body is None:
        raise Inconclusive('call_and_forward not found')
    ctx.encoded(prog, body)
    seen = set()
    for with_tmo in (True, False):
        I = new_interp(prog)
        hook_poll(I)
        st = State()
        d = I.fresh_int('timeout_ms', 'u128', st)
        tmo = models_std.some(I.mk_duration(d)) if with_tmo else models_std.NONE
        cell = Agg('ActorCell', (Opaque('target-props', ident='target'),))
        fwd = Agg('ActorCell', (Opaque('forward-props', ident='forward-target'),))
        outs = I.run_body(st, body, [Ref(st.alloc(cell), ()), Opaque('builder', ident='builder'), fwd, Opaque('forward-map', ident='forward-map'), tmo])
        for k0, o in enumerate(outs):
            name0 = 'forward.%s.start%d' % ('timeout' if with_tmo else 'no_timeout', k0)
            cex = lambda m, with_tmo=with_tmo: replay('forward', {'timeout': with_tmo})
            sends = [e for e in o.st.trace if e[0] == 'SEND']
            if o.kind != 'ret':
                lp.record(ctx, name0, o.st, {'completes_without_panic': False}, 'C09.forward', on_cex=cex)
                continue
            if o.val.variant == 'Err':
                ctx.prove(name0 + '.err_only_when_send_failed', o.st.pc, z3.Not(sends[0][2]) if sends else z3.BoolVal(False), group='C09.forward.err_only_when_send_failed', key='C09.forward', on_cex=cex)
                lp.record(ctx, name0, o.st, {'failed_request_spawns_nothing': not o.st.ghost.get('spawned')}, 'C09.forward', on_cex=cex)
                seen.add('SendErr')
                continue
            sp = o.st.ghost.get('spawned', ())
            if len(sp) != 1:
                lp.record(ctx, name0, o.st, {'one_forwarding_task': False}, 'C09.forward', on_cex=cex)
                continue
            n_req = len(sends)
            res = drive(I, o.st, sp[0])
            ctx.paths += len(res)
            for k, (s, kind, v, n) in enumerate(res):
                name = '%s.path%d' % (name0, k)
                tr = s.trace
                builds = [e for e in tr if e[0] == 'BUILD']
                oid = port_oid(builds[0][1]) if builds else None
                recvs = [e for e in tr if e[0] == 'RECV']
                maps = [e for e in tr if e[0] == 'MAP']
                fsends = [e for e in tr if e[0] == 'SEND'][n_req:]
                claims = {'completes_without_panic': kind in ('ready', 'budget'), 'only_this_calls_receiver_is_awaited': all(e[1] == oid for e in tr if e[0] == 'POLL_RX')}
                if kind == 'ready':
                    got = v.variant if isinstance(v, Enum) else None
                    seen.add(got)
                    if got == 'Success':
                        claims['forwards_exactly_once_the_mapped_reply_to_the_forward_target'] = (
                            len(recvs) == 1 and recvs[0][1] == oid and len(maps) == 1 and isinstance(maps[0][1], Opaque) and maps[0][1].ident == ('reply', oid)
                            and len(fsends) == 1 and isinstance(fsends[0][1], Opaque) and fsends[0][1].info is maps[0][1] and fsends[0][3] == 'forward-target')
                    else:
                        claims['nothing_forwarded_without_a_reply'] = not maps and not fsends
                lp.record(ctx, name, s, claims, 'C09.forward', sample={'function': fn, 'timeout': with_tmo, 'result': repr(v)[:60], 'events': [e[0] for e in tr][:14]}, on_cex=cex)
        ctx.absorb(I)
    for w in ('Success', 'SenderError', 'Timeout', 'SendErr'):
        ctx.note_witness('C09.forward.' + w, w in seen)


def check_reply_port(ctx, prog):
    """RpcReplyPort::send consumes the port and delivers on its own oneshot; a closed receiver hands the value back"""
    body = prog.find_fn('RpcReplyPort::<TMsg>::send')
    if body is None:
        raise Inconclusive('RpcReplyPort::send not found')
    ctx.encoded(prog, body)
    d = prog.crate.struct('RpcReplyPort')
    I = new_interp(prog)
    st = State()
    oid = 'os_reply'
    closed = z3.Bool('receiver_gone')
    st.objs[oid] = {'st': z3.BitVecVal(0, 2), 'val': z3.BitVecVal(0, objects.ID_BITS), 'txdrop': z3.BoolVal(False), 'rxclosed': closed}
    port = Agg('RpcReplyPort', [Obj('oneshot', oid, 'tx') if k == 'port' else models_std.NONE for k in d['fields']])
    val = Opaque('the-reply', ident='the-reply')
    I.hooks['oneshot_ident'] = lambda I, st, o, v: 7
    outs = I.run_body(st, body, [port, val])
    ctx.absorb(I)
    for k, o in enumerate(outs):
        name = 'reply_port.send.path%d' % k
        cex = lambda m: replay('reply_port', {})
        if o.kind != 'ret':
            lp.record(ctx, name, o.st, {'completes_without_panic': False}, 'C09.reply_port', on_cex=cex)
            continue
        ob = o.st.objs[oid]
        if o.val.variant == 'Ok':
            ctx.prove(name + '.ok_means_value_is_in_this_ports_channel', o.st.pc, z3.And(z3.Not(closed), ob['st'] == 1, ob['val'] == 7), group='C09.reply_port.ok_means_delivered', key='C09.reply_port', on_cex=cex)
        else:
            ctx.prove(name + '.err_only_when_receiver_gone', o.st.pc, closed, group='C09.reply_port.err_only_when_receiver_gone', key='C09.reply_port', on_cex=cex)
            lp.record(ctx, name, o.st, {'refused_value_is_handed_back': isinstance(o.val.fields[0], Enum) and o.val.fields[0].variant == 'SendErr' and o.val.fields[0].fields[0] is val},
                      'C09.reply_port', on_cex=cex)
    ctx.note_witness('C09.reply_port.both_outcomes', len(outs) >= 2)


def check_multi(ctx, prog, n=2):
    """multi_call over n actors: result i is the reply (or the failure) of the i-th actor's own port, whatever order the tasks finish in"""
    fn = 'rpc::multi_call'
    body = prog.find_fn(fn)
    if body is None:
        raise Inconclusive('multi_call not found')
    ctx.encoded(prog, body)
    seen = set()
    for with_tmo in (True, False):
        I = new_interp(prog)
        hook_poll(I)
        I.max_paths = 200000
        st = State()
        d = I.fresh_int('timeout_ms', 'u128', st)
        tmo = models_std.some(I.mk_duration(d)) if with_tmo else models_std.NONE
        refs = [Agg('ActorRef', (Agg('ActorCell', (Opaque('props', ident='target%d' % i),)), Agg('PhantomData', ()))) for i in range(n)]
        arr = st.alloc(Agg('[]', refs))
        st, coro = lc.make_coro(I, st, prog, fn, [Ref(arr, ()), Opaque('builder', ident='builder'), tmo])
        cc = st.alloc(coro)
        res = drive(I, st, cc, 4)
        ctx.absorb(I)
        ctx.paths += len(res)
        for k, (s, kind, v, npolls) in enumerate(res):
            name = 'multi.%s.path%d' % ('timeout' if with_tmo else 'no_timeout', k)
            cex = lambda m, with_tmo=with_tmo: replay('multi', {'timeout': with_tmo})
            tr = s.trace
            builds = [e for e in tr if e[0] == 'BUILD']
            sends = [e for e in tr if e[0] == 'SEND']
            claims = {'completes_without_panic': kind in ('ready', 'budget')}
            claims['request_i_goes_to_actor_i_with_its_own_fresh_port'] = (len(builds) == len(sends) and len({port_oid(b[1]) for b in builds}) == len(builds)
                                                                          and all(sends[i][1].info is builds[i][1] and sends[i][3] == 'target%d' % i for i in range(len(sends))))
            if kind == 'ready' and v.variant == 'Ok':
                vec = v.fields[0]
                okk = len(vec.fields) == n and len(builds) == n
                if okk:
                    for i, r in enumerate(vec.fields):
                        oid = port_oid(builds[i][1])
                        if r.variant == 'Success':
                            okk = okk and isinstance(r.fields[0], Opaque) and r.fields[0].ident == ('reply', oid)
                            seen.add('Success')
                        elif r.variant == 'SenderError':
                            ob = s.objs.get(oid)
                            ctx.prove('%s.result%d_sender_error_means_dropped_without_reply' % (name, i), s.pc, z3.And(ob['txdrop'], ob['st'] != 1), group='C09.multi.sender_error_means_dropped_without_reply',
                                      key='C09.multi', on_cex=cex)
                            seen.add('SenderError')
                        elif r.variant == 'Timeout':
                            okk = okk and with_tmo and not any(e[0] == 'RECV' and e[1] == oid for e in tr)
                            seen.add('Timeout')
                claims['result_i_is_the_outcome_of_actor_i_own_port'] = okk
                ctx.prove(name + '.ok_only_when_every_send_succeeded', s.pc, z3.And([e[2] for e in sends]) if sends else z3.BoolVal(True), group='C09.multi.ok_only_when_every_send_succeeded', key='C09.multi', on_cex=cex)
            elif kind == 'ready':
                seen.add('Err')
                ctx.prove(name + '.err_only_when_a_send_failed', s.pc, z3.Not(sends[-1][2]) if sends else z3.BoolVal(False), group='C09.multi.err_only_when_a_send_failed', key='C09.multi', on_cex=cex)
                claims['failed_send_awaits_nothing'] = not any(e[0] == 'POLL_RX' for e in tr)
            lp.record(ctx, name, s, claims, 'C09.multi', sample={'function': fn, 'timeout': with_tmo, 'result': repr(v)[:90]} if k < 3 else None, on_cex=cex)
    for w in ('Success', 'SenderError', 'Timeout', 'Err'):
        ctx.note_witness('C09.multi.' + w, w in seen)


_replayed = {}


def replay(which, args):
    import C09_replay
    k = (which, tuple(sorted(args.items())))
    if k not in _replayed:
        _replayed[k] = C09_replay.replay(which, args)
    return _replayed[k]


def run(ctx):
    prog, info = lc.load()
    ctx.bounds.update({'calls': 'one call per run (a fresh oneshot pair per call is shown structurally: concurrent calls share nothing but the target mailbox, see C02); timeout value fully symbolic',
                       'environment': 'before every poll of the reply receiver the callee side may have replied (any value), dropped the port, or done nothing; up to 3 polls',
                       'multi_call': '2 actors, tasks completing in either order, up to 4 polls of the outer future',
                       'outside': 'multi_call with more than 2 actors; tokio timer accuracy and the oneshot implementation (contracts); '
                                  'that a dying callee really drops queued ports is C08 (ActorPortSet::drop) and C07 (refused sends)'})
    ctx.assumptions += ['tokio oneshot contract: a value sent is received exactly once by the paired receiver; a dropped sender yields RecvError once nothing is queued',
                        'tokio::time::timeout(d, f): Ready(Ok(x)) when f completes with x; may complete with Elapsed only at a poll where f was pending',
                        'the user message builder is opaque and moves the port into the message it returns; send_message succeeds or fails arbitrarily']
    check_call(ctx, prog, 'rpc::call', 'call')
    check_call(ctx, prog, 'DerivedActorRef::<TMessage>::call', 'derived')
    check_forward(ctx, prog)
    check_reply_port(ctx, prog)
    check_multi(ctx, prog)
    # premise of "a callee that drains without replying makes the caller see SenderError instead of hanging": the drain completes - its marker is emitted exactly
    # once even when the drain overlaps a send that holds an admission ticket (then the actor stops and its queued / kept reply ports are dropped: C07 loop side,
    # C08). One instance of the mailbox BMC shared with C07, reported under this property.
    import mailbox as mb
    mprog = mb.load()[0]
    for fn in (mb.SEND, mb.DRAIN, '<MessageAdmission as Drop>::drop', 'ActorProperties::send_drain_marker'):
        b = mprog.find_fn(fn)
        if b is None:
            raise Inconclusive('function not found in dump: ' + fn)
        ctx.encoded(mprog, b)
    mb.run_instance(ctx, 'C07', mprog, 'drain_completes.s2x1_d1_r2', 2, 1, 1, 0, 2, 2)
    ctx.bounds['drain_completes'] = '2 senders x 1 message + 1 drainer, 2 rounds, CAS unroll 2 (the C07 instance s2x1_d1_r2)'


def replay_file(path):
    import json
    import C09_replay
    d = json.load(open(path))
    if (d.get('replay') or {}).get('scenario') == 'mailbox':
        import mailbox_replay
        return mailbox_replay.replay_from_json(d)
    r = C09_replay.replay(d['replay']['which'], d['replay'].get('args', {}))
    print(r['detail'])
    return 1 if r['replayed'] else 0
