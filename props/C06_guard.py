"""C06 (guard slice) - the exit clean-up reaches Stopped and wakes the waiters even when one of its steps unwinds.

`ActorLifecycleGuard::finish(event)` is executed on the real MIR for an actor whose terminal event cannot be delivered (no supervisor, or a supervisor whose
mailbox is closed): the event - and with it the user's final state - is dropped inside the clean-up, and a user `Drop` may panic there. The panic unwinds out of
`cleanup` through `finish`, whose landing pad drops the guard, whose `Drop` runs the clean-up again. Claims, for the normal return and for every unwinding path:

  * when `finish` is left (returned or unwound) the status reads Stopped and the waiters were notified after that store;
  * the status never moved backwards on the way."""
import z3

import lifeprops as lp
import actor_run as ar
import models_std
from exec import State, Outcome, Inconclusive
from values import *


def check(ctx, prog):
    gd = prog.crate.struct('ActorLifecycleGuard')
    body = prog.find_fn('ActorLifecycleGuard::finish')
    if body is None or not gd:
        raise Inconclusive('ActorLifecycleGuard::finish not found')
    for fn in ('ActorLifecycleGuard::finish', 'ActorLifecycleGuard::cleanup', '<ActorLifecycleGuard as Drop>::drop'):
        b = prog.find_fn(fn)
        if b is None:
            raise Inconclusive(fn + ' not found')
        ctx.encoded(prog, b)
    seen = set()
    for sup in ('none', 'dead'):
        for noc in (True, False):
            I = ar.new_interp(prog, 1)

            def on_drop(I, st, v, ref):
                if isinstance(v, Opaque) and v.tag == 'UserFinalState':
                    s2 = st.fork()
                    st.emit('DROP', 'user state')
                    s2.emit('DROP', 'user state (panics)')
                    s2.emit('PANIC', 'user Drop')
                    s2.ghost['panic_payload'] = Opaque('drop-panic')
                    return [Outcome(st, 'ret', UNIT), Outcome(s2, 'unwind', s2.ghost['panic_payload'])]
                return None
            I.hooks['drop'] = on_drop
            st = State()
            a = ar.Actor(prog, I, st, sup == 'dead', 2)
            if sup == 'dead':
                st.cells[st.ghost[('mutex_inner', 'a_supervisor')]] = models_std.some(a.sup_cell)
                q = dict(st.objs['sup_supq'])
                q['closed'] = z3.BoolVal(True)
                st.objs['sup_supq'] = q
            st.objs['a_status'] = {'w': z3.BitVecVal(2, 8)}
            g = {'actor': a.cell, 'notify_on_cancel': z3.BoolVal(noc), 'armed': z3.BoolVal(True)}
            gv = Agg('ActorLifecycleGuard', [g[k] for k in gd['fields']])
            ev = Enum('SupervisionEvent', 'ActorTerminated', 1, (a.cell, models_std.some(Opaque('UserFinalState', ident='final-state')), models_std.NONE))
            t0 = len(st.trace)
            outs = I.run_body(st, body, [gv, ev])
            ctx.absorb(I)
            ctx.paths += len(outs)
            for k, o in enumerate(outs):
                name = 'guard.sup_%s.cancelnotify%d.path%d' % (sup, noc, k)
                s = o.st
                tr = s.trace[t0:]
                panicked = any(e[0] == 'PANIC' for e in tr)
                stores = [i for i, e in enumerate(tr) if e[0] == 'OP' and e[1] == 'a_status']
                wakes = [i for i, e in enumerate(tr) if e[0] == 'OP' and e[1] == 'a_notify' and 'notify' in str(e[2])]
                stopped = z3.is_true(z3.simplify(a.status(s) == 6))
                claims = {'finish_returns_or_unwinds_with_the_user_panic_only': o.kind == 'ret' or (o.kind == 'unwind' and panicked),
                          'status_reads_stopped_when_the_guard_is_gone': stopped,
                          'waiters_are_woken_after_the_final_store': bool(wakes) and bool(stores) and wakes[0] > 0 and stopped}
                lp.record(ctx, name, s, claims, 'C06.guard', sample={'supervisor': sup, 'notify_on_cancel': noc, 'outcome': o.kind, 'user_drop_panicked': panicked},
                          on_cex=lambda m: replay())
                seen.add('unwound' if o.kind == 'unwind' else 'returned')
    ctx.note_witness('C06.guard.unwinding_path_exists', 'unwound' in seen)
    ctx.note_witness('C06.guard.returning_path_exists', 'returned' in seen)
    ctx.bounds['guard'] = ('ActorLifecycleGuard::finish for an actor whose terminal event is undeliverable (no supervisor / supervisor mailbox closed); the drop of the user state carried by '
                           'the event returns or panics; the landing pads of finish / cleanup are executed from the MIR (drop of the guard re-runs the clean-up); a second panic '
                           'while unwinding (abort) is outside')


def replay():
    import C06_guard_replay
    return C06_guard_replay.replay()
