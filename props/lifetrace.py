"""Layered exploration of the actor lifecycle shared by C01 (callback order), C03 (dispatch), C04 (failure reporting) and C08
(failed spawn):

  L1  `process_message` from an arbitrary loop-head state (real MIR, real select!, opaque handlers)  -> per-iteration claims
      and the set of outcome classes S
  L2  `start` + the spawned task + `processing_loop` (real MIR) with `process_message` replaced by a nondeterministic choice
      from S (assume-guarantee; S is recomputed from L1 on every run), at most MAX_ITEMS continuing iterations

Both runtimes (ActorRuntime / ThreadLocalActorRuntime) share this driver.
"""
import re
import z3

import actor_run as ar
import lifecycle as lc
import models_std
from exec import State, Outcome, Inconclusive, Unmodelled
from values import *

MAX_ITEMS = 2


def loop_result(prog, I, should_exit, reason, was_killed):
    d = prog.crate.struct('ActorLoopResult')
    if not d or sorted(d['fields']) != ['exit_reason', 'should_exit', 'was_killed']:
        raise Inconclusive('ActorLoopResult fields changed')
    f = {'should_exit': z3.BoolVal(should_exit), 'exit_reason': reason, 'was_killed': z3.BoolVal(was_killed)}
    return Agg('ActorLoopResult', [f[k] for k in d['fields']])


def read_loop_result(prog, v):
    d = prog.crate.struct('ActorLoopResult')
    return {k: v.fields[i] for i, k in enumerate(d['fields'])}


def explore_process_message(prog, runtime='ActorRuntime', poll_budget=1, max_polls=3, loop_status=None):
    """returns (I, actor, results) where results = list of dict(state, kind, value, select, cbs, klass); loop_status = (lo, hi): the actor's own status is a
    symbolic byte in that range (default: the constant the Actor fixture starts with)"""
    I = ar.new_interp(prog, poll_budget, runtime)
    I.max_paths = 200000
    st = State()
    a = ar.Actor(prog, I, st, True, 2)
    if loop_status is not None:
        sv = z3.BitVec('loop_head_status', 8)
        st.assume(z3.And(z3.UGE(sv, loop_status[0]), z3.ULE(sv, loop_status[1])))
        st.objs['a_status'] = {'w': sv}
    refc = st.alloc(a.actor_ref)
    stc = st.alloc(Opaque('State', ident='the-state'))
    hc = st.alloc(Opaque('TActor', ident='the-handler'))
    pc = st.alloc(a.ports)
    st, coro = lc.make_coro(I, st, prog, '%s::<TActor>::process_message' % runtime, [Ref(refc, ()), Ref(stc, (), True), Ref(hc, ()), Ref(pc, (), True)])
    cc = st.alloc(coro)
    res = ar.drive(I, st, cc, max_polls, 'pm')
    out = []
    for (s, kind, v, n) in res:
        recvs = [e for e in s.trace if e[0] == 'RECV']
        cbs = [e for e in s.trace if e[0] == 'CB' and e[1] in ('start', 'end', 'cancelled')]
        rec = {'state': s, 'kind': kind, 'value': v, 'polls': n, 'recvs': recvs, 'cbs': cbs, 'klass': None}
        cbname = next((e[2] for e in cbs if e[1] == 'start'), None)
        if kind == 'ready':
            if v.variant == 'Ok':
                lr = read_loop_result(prog, v.fields[0])
                ex, kl = z3.is_true(z3.simplify(lr['should_exit'])), z3.is_true(z3.simplify(lr['was_killed']))
                rec['loop_result'] = lr
                rec['klass'] = ('killed', cbname) if kl else (('stop', None) if ex else ('continue', cbname))
            else:
                rec['klass'] = ('err', cbname)
        elif kind == 'unwind':
            rec['klass'] = ('panic', cbname)
        elif kind == 'budget':
            rec['klass'] = None
        else:
            rec['klass'] = ('abort', cbname)
        out.append(rec)
    return I, a, out


def classes_of(results):
    s = []
    for r in results:
        if r['klass'] is not None and r['klass'] not in s:
            s.append(r['klass'])
    return s


def kill_reason_of(results):
    """the exit reason every killed-class iteration reports (one value for all of them), else None"""
    from exec import val_key
    vals = {}
    for r in results:
        if r['klass'] is not None and r['klass'][0] == 'killed' and 'loop_result' in r:
            vals[val_key(r['loop_result']['exit_reason'])] = r['loop_result']['exit_reason']
    return list(vals.values())[0] if len(vals) == 1 else None


def install_summary(I, prog, classes, runtime, kill_reason=None):
    """replace process_message by a future that completes with any of the verified outcome classes"""
    def pm(I, st, f, args, fr):
        return I.ret(st, Opaque('pmfut', info={'n': fresh_id()}))
    I.override.append((re.compile(r'(^|::)%s::<TActor>::process_message$|^%s::process_message$' % (runtime, runtime)), pm))
    prev = I.hooks.get('poll_other')

    def poll_other(I, st, v, cell, path, cx, fr):
        if not (isinstance(v, Opaque) and v.tag == 'pmfut'):
            return prev(I, st, v, cell, path, cx, fr) if prev else None
        done = st.ghost.get('items_done', 0)
        outs = []
        choices = [c for c in classes if not (c[0] == 'continue' and done >= MAX_ITEMS)]
        for i, (kind, cb) in enumerate(choices):
            s2 = st.fork() if i < len(choices) - 1 else st
            uid = fresh_id()
            if cb:
                s2.emit('CB', 'start', cb, uid)
            if kind == 'continue':
                if cb:
                    s2.emit('CB', 'end', cb, uid, 'ok')
                s2.ghost['items_done'] = done + 1
                outs.append(Outcome(s2, 'ret', models_std.ready(models_std.ok(loop_result(prog, I, False, models_std.NONE, False)))))
            elif kind == 'stop':
                s2.emit('LOOPEXIT', 'stop')
                outs.append(Outcome(s2, 'ret', models_std.ready(models_std.ok(loop_result(prog, I, True, models_std.some(Opaque('exit-reason', ident='the-exit-reason')), False)))))
            elif kind == 'killed':
                if cb:
                    s2.emit('CB', 'cancelled', cb, uid)
                s2.emit('LOOPEXIT', 'killed')
                # the kill signal was received from the signal port: that oneshot is now completed
                if 'sigq' in s2.objs:
                    ob = dict(s2.objs['sigq'])
                    ob['st'] = z3.BitVecVal(2, 2)
                    s2.objs['sigq'] = ob
                outs.append(Outcome(s2, 'ret', models_std.ready(models_std.ok(loop_result(prog, I, True, kill_reason if kill_reason is not None else models_std.some(Opaque('signal-string')), True)))))
            elif kind == 'err':
                if cb:
                    s2.emit('CB', 'end', cb, uid, 'err')
                s2.emit('LOOPEXIT', 'err')
                outs.append(Outcome(s2, 'ret', models_std.ready(models_std.err(Opaque('user-error', ident=('user-error', cb, uid))))))
            elif kind == 'panic':
                if cb:
                    s2.emit('CB', 'end', cb, uid, 'panic')
                s2.emit('LOOPEXIT', 'panic')
                s2.ghost['panic_payload'] = Opaque('user-panic', ident=('user-panic', cb, uid))
                outs.append(Outcome(s2, 'unwind', s2.ghost['panic_payload']))
            else:
                raise Inconclusive('unknown process_message class %r' % (kind,))
        return outs
    I.hooks['poll_other'] = poll_other

    # the port set's Drop (close + flush of four queues) is verified on its own (C08.ports_drop); here only its summary effect
    def ports_drop(I, st, f, args, fr):
        for q in lc.PORTS:
            if q in st.objs:
                ob = dict(st.objs[q])
                if 'rxclosed' in ob:
                    ob['rxclosed'] = z3.BoolVal(True)
                    ob['st'] = z3.If(ob['st'] == 1, z3.BitVecVal(2, 2), ob['st'])
                else:
                    ob['closed'] = z3.BoolVal(True)
                    ob['len'] = z3.BitVecVal(0, 8)
                st.objs[q] = ob
        st.emit('FX', 'ports_closed_and_flushed')
        return I.ret(st, UNIT)
    I.type_drops['ActorPortSet'] = lambda I, st, v, ref: ports_drop(I, st, None, None, None)


def explore_lifecycle(prog, classes, runtime='ActorRuntime', poll_budget=1, with_supervisor=True, sup_status=None, start_polls=3, task_polls=6, cancel_points=False, kill_reason=None, name=None):
    """returns (I, actor, results): results = list of dict(phase, state, kind, value)"""
    I = ar.new_interp(prog, poll_budget, runtime)
    I.max_paths = 400000
    install_summary(I, prog, classes, runtime, kill_reason)
    st = State()
    a = ar.Actor(prog, I, st, with_supervisor, 2, name=name)
    if with_supervisor and sup_status is None:
        # supervisor status symbolic: Running or already shutting down (refused link)
        ss = z3.BitVec('sup_status', 8)
        st.assume(z3.ULE(ss, 6))
        st.objs['sup_status'] = {'w': ss}
        a.sup_status_term = ss
    elif with_supervisor:
        st.objs['sup_status'] = {'w': z3.BitVecVal(sup_status, 8)}
        a.sup_status_term = z3.BitVecVal(sup_status, 8)
    rv = a.runtime_value(st)
    sup = models_std.some(a.sup_cell) if with_supervisor else models_std.NONE
    fn = '%s::<TActor>::start' % runtime
    body = prog.find_fn(fn)
    if body is None:
        raise Inconclusive('function not found: ' + fn)
    I.stats['calls_inlined'].add(body.name)
    args = [rv, a.ports, Opaque('Arguments')] + ([sup] if runtime == 'ActorRuntime' else [Opaque('Spawner', ident='spawner'), sup])
    outs = I.run_body(st, body, args)
    if len(outs) != 1 or not isinstance(outs[0].val, Coro):
        raise Inconclusive('start did not return a coroutine')
    st = outs[0].st
    ccell = st.alloc(outs[0].val)
    results = []
    for (s, kind, v, n) in ar.drive(I, st, ccell, start_polls, 'st'):
        if kind == 'ready' and v.variant == 'Ok':
            s.emit('START_OK')
            for (s2, k2, v2, n2) in ar.run_task(I, s, task_polls, cancel_points=cancel_points):
                results.append({'phase': 'task', 'state': s2, 'kind': k2, 'value': v2})
        else:
            if kind == 'ready':
                s.emit('START_ERR', v.fields[0].variant if isinstance(v.fields[0], Enum) else '?')
            results.append({'phase': 'start', 'state': s, 'kind': kind, 'value': v})
    return I, a, results
