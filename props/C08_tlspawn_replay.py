"""native side of the C08 thread-local hand-over slice: a thread-local spawn abandoned while its request is queued behind a busy spawner thread"""
import native


def run_native():
    out, _, rc, err = native.run('tl_queued_cancel', timeout=60)
    if rc != 0:
        raise RuntimeError('native tl_queued_cancel failed: ' + err[-300:])
    bad = []
    if out.get('spawn_abandoned') != '1' or out.get('blocker_started') != '1' or out.get('fence_started') != '1':
        bad.append('scenario_not_established: %s' % out)
    if out.get('victim_pre_start_ran') != '0':
        bad.append('no_callback_of_an_abandoned_spawn_runs')
    if out.get('name_registered') != '0' or out.get('name_reusable') != '1':
        bad.append('an_abandoned_spawn_keeps_no_name')
    if out.get('running_spawn_abandoned') != '1' or out.get('running_pre_start_began') != '1':
        bad.append('second_scenario_not_established: %s' % out)
    if out.get('running_pre_start_finished') != '0' or out.get('running_name_registered') != '0':
        bad.append('a_spawn_abandoned_while_its_start_task_runs_is_aborted')
    return {'observed': out, 'violated': bad}


def replay():
    r = run_native()
    return {'replayed': bool(r['violated']), 'detail': 'native thread-local spawn abandoned while queued: %s' % r, 'replay': {'scenario': 'tl_queued_cancel', 'prop': 'C08', 'which': 'tlspawn'}}


def replay_from_json(d):
    r = replay()
    print(r['detail'])
    return 1 if r['replayed'] else 0
