"""native replay for the C20 mirror slice: one Spawn / Terminate / PgJoin / PgLeave through the real handle_control with real proxies and the real pg"""
import native


def run_native(have, enrolled, kind, lst):
    out, _l, rc, err = native.run('session_mirror', have=list(have), enrolled=int(enrolled), kind=kind, list=list(lst), timeout=30)
    if rc != 0:
        raise RuntimeError('native session_mirror failed: ' + err[-300:])
    d = dict(x.split('~', 1) for x in out['out'].split(';'))
    table = dict((int(a), b) for a, b in (x.split(':') for x in d['table'].split(',') if x))
    return {'table': table, 'stopped': sorted(int(x) for x in d['stopped'].split(',') if x), 'members': [x for x in d['members'].split(',') if x], 'children': int(d['children'])}


def evaluate(have, kind, lst):
    bad = []
    enrolled = kind == 'PgLeave'
    o = run_native(have, enrolled, kind, lst)
    want_tab = {p: 'old' for p in have}
    if kind in ('Spawn', 'PgJoin'):
        for p in lst:
            want_tab.setdefault(p, 'new')
    if kind == 'Terminate':
        want_tab = {p: v for p, v in want_tab.items() if p not in lst}
    if o['table'] != want_tab:
        bad.append('%s %s from %s: proxy table %s, expected %s' % (kind, lst, have, o['table'], want_tab))
    want_stopped = sorted(p for p in have if kind == 'Terminate' and p in lst)
    if o['stopped'] != want_stopped:
        bad.append('%s %s from %s: stopped proxies %s, expected %s' % (kind, lst, have, o['stopped'], want_stopped))
    if kind == 'PgJoin':
        want_m = sorted(str(p) for p in set(lst))
    elif kind == 'PgLeave':
        want_m = sorted(str(p) for p in have if p not in lst)
    else:
        want_m = []
    if sorted(set(o['members'])) != want_m:
        bad.append('%s %s from %s: group members %s, expected %s' % (kind, lst, have, o['members'], want_m))
    if o['children'] != len(o['table']):
        bad.append('%s %s from %s: %d proxies in the table, %d children of the session' % (kind, lst, have, len(o['table']), o['children']))
    return bad, o


def replay(rp):
    bad, o = evaluate(rp['have'], rp['kind'], rp['list'])
    for lst in ([7], [9], [7, 9], [9, 9]):
        bad += evaluate(rp['have'], rp['kind'], lst)[0]
    return {'replayed': bool(bad), 'detail': 'native handle_control %s -> %s ; violated %s' % (rp, o, bad[:4]), 'replay': {'which': 'mirror', 'rp': rp}}


def battery():
    bad, n = [], 0
    for have in ([], [7], [7, 8]):
        for kind in ('Spawn', 'Terminate', 'PgJoin', 'PgLeave'):
            for lst in ([], [7], [9], [7, 9], [9, 9], [7, 8, 9]):
                b, o = evaluate(have, kind, lst)
                n += 1
                bad += b
    return bad, n
