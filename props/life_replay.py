"""Native replay of lifecycle traces: a scripted actor on the real runtime reproduces the callback outcomes and the stimuli
(messages, supervision events, stop, kill) of a model path; the observed callback / supervision trace is re-evaluated with the
same oracles (lifeoracles.py)."""
import native
import lifeoracles as lo
from values import *


def script_from_trace(trace):
    """returns (script string, meta) or (None, reason)"""
    cbs = [e for e in trace if e[0] == 'CB' and e[1] in ('start', 'end', 'cancelled')]
    exits = [e[1] for e in trace if e[0] == 'LOOPEXIT']
    steps = []        # (name, outcome, yields, actions)
    order = []
    cur = None
    for e in cbs:
        if e[1] == 'start':
            cur = [e[2], None, 0, []]
            order.append(cur)
        elif e[1] == 'end' and cur is not None:
            cur[1] = e[4]
        elif e[1] == 'cancelled' and cur is not None:
            cur[1] = 'ok'
            cur[2] = 2
            cur[3].append('kill')
    for s in order:
        if s[1] is None:
            s[1] = 'ok'
            s[2] = 0
    if any(e[0] == 'FX' and e[1] == 'pre_start_links_observer' for e in trace):
        for s in order:
            if s[0] == 'pre_start':
                s[3].append('linkobs')
    # the stimulus for step k+1 is sent from within step k (after post_start); exits are triggered by the last handler / post_start
    names = [s[0] for s in order]
    started = 'post_start' in names and any(e[0] == 'START_OK' for e in trace)
    if started:
        i0 = names.index('post_start')
        chain = order[i0:]
        loop_items = [s for s in chain[1:] if s[0] in ('handle', 'handle_supervisor_evt')]
        feeders = [chain[0]] + loop_items
        post_ok = chain[0][1] == 'ok' and 'kill' not in chain[0][3]
        if post_ok:
            for k, item in enumerate(loop_items):
                feeders[k][3].append('msg' if item[0] == 'handle' else 'supevt')
            last = feeders[len(loop_items)]
            final = exits[-1] if exits else None
            if final == 'stop':
                last[3].append('stopreason')
            elif final == 'killed' and 'kill' not in last[3] and not any('kill' in s[3] for s in loop_items):
                last[3].append('kill')
            elif final in ('err', 'panic') and not any(s[1] in ('err', 'panic') for s in loop_items):
                return None, 'exit by undecodable message cannot be scripted natively'
    meta = {'exits': exits, 'started': started}
    if any(e[0] == 'TASK_ABORTED' for e in trace):
        # abort while the last started callback is still pending (it yields for long), or while idle after the last callback
        ab = next(i for i, e in enumerate(trace) if e[0] == 'TASK_ABORTED')
        before = [e for e in trace[:ab] if e[0] == 'CB' and e[1] in ('start', 'end')]
        pending = [e for e in trace[:ab + 1] if e[0] == 'CB' and e[1] == 'cancelled']
        n_entries = len(before)
        if pending:
            # the cancelled callback: make it hang instead of being killed
            for s in order:
                if s[0] == pending[-1][2] and 'kill' in s[3]:
                    s[3].remove('kill')
                    s[2] = 400
        meta['abort_after_entries'] = n_entries
        if any(e[0] == 'CANCEL_BEFORE_FIRST_POLL' for e in trace[:ab + 1]):
            meta['abort_now'] = True
    script = ';'.join('%s/%s/%d/%s' % (s[0], s[1], s[2], '+'.join(s[3])) for s in order)
    return script, meta


def trace_from_log(log, meta):
    """rebuild the model's trace vocabulary from the native log"""
    tr = []
    uid = 0
    for ent in log:
        p = ent.split(':')
        if p[0] == 'start' and len(p) == 2 and p[1] != 'err':
            uid += 1
            tr.append(('CB', 'start', p[1], uid))
        elif p[0] == 'end':
            tr.append(('CB', 'end', p[1], uid, p[2]))
        elif p[0] == 'cancelled':
            tr.append(('CB', 'cancelled', p[1], uid))
        elif p[0] == 'supevt':
            if p[1] == 'ActorTerminated':
                state = Enum('Option', 'Some', 1, (Opaque('state'),)) if p[2] == 'state=1' else Enum('Option', 'None', 0, ())
                reason = p[3][len('reason='):]
                if reason == '-':
                    rv = Enum('Option', 'None', 0, ())
                elif reason == 'the-exit-reason':
                    rv = Enum('Option', 'Some', 1, (Opaque('exit-reason', ident='the-exit-reason'),))
                else:
                    rv = Enum('Option', 'Some', 1, (Str(reason),))
                tr.append(('SUPEVT', 'ActorTerminated', (state, rv)))
            else:
                tr.append(('SUPEVT', p[1], ()))
        elif p[0] == 'start_ok':
            tr.append(('START_OK',))
        elif p[0] == 'start_err':
            tr.append(('START_ERR', p[1]))
        elif p[0] == 'task_aborted':
            tr.append(('TASK_ABORTED',))
        elif p[0] == 'taskend':
            tr.append(('TASKEND', 'ready' if p[1] in ('ok', 'cancelled') else p[1]))
    # supervision events are logged by the supervisor task, which may run later than the child's callbacks: order among SUPEVT is preserved
    for x in meta.get('exits', []):
        tr.append(('LOOPEXIT', x))
    return tr


def run_native(script, sup=True, sup_dead=False, named=False, abort_after=None, tl=False, abort_now=False):
    out, lines, rc, err = native.run('life', script=script, sup=1 if sup else 0, sup_dead=1 if sup_dead else 0, named=1 if named else 0, abort_after_entries=abort_after, abort_now=1 if abort_now else 0,
                                     obs=1 if 'linkobs' in script else 0, tl=1 if tl else 0, timeout=30)
    if rc != 0:
        raise RuntimeError('native life replay failed: ' + err[-300:])
    return [x for x in out.get('log', '').split(',') if x]


def evaluate(prop, log, meta, sup):
    tr = trace_from_log(log, meta)
    complete = any(e[0] == 'TASKEND' for e in tr) or any(e[0] == 'START_ERR' for e in tr)
    bad = []
    if prop in ('C01', 'C03'):
        bad += [k for k, v in lo.order_claims(tr, complete).items() if not v]
    if prop == 'C04':
        cl = {'task_and_start_never_unwind': not any(e == ('TASKEND', 'panic') for e in tr)}
        cl.update(lo.terminal_claims(tr, complete, sup))
        bad += [k for k, v in cl.items() if not v]
    if prop == 'C08':
        starts = [e[2] for e in tr if e[0] == 'CB' and e[1] == 'start']
        if any(e[0] == 'START_ERR' for e in tr):
            if not (all(s == 'pre_start' for s in starts) and len(starts) <= 1):
                bad.append('no_callback_other_than_pre_start')
            if any(e[0] == 'SUPEVT' for e in tr):
                bad.append('no_supervision_event')
            if 'name_registered:1' in log:
                bad.append('registries_and_groups_released')
            if any(x.startswith('sup_children:') and x != 'sup_children:0' for x in log):
                bad.append('not_linked_to_supervisor')
            if any(x.startswith('obs_children:') and x != 'obs_children:0' for x in log):
                bad.append('not_linked_to_observer')
    return bad, tr


def replay_trace(tag, trace, prop, sup=True, sup_dead=False, named=False):
    script, meta = script_from_trace(trace)
    if script is None:
        return {'replayed': False, 'detail': 'no native script for this path: %s' % meta}
    tl = 'ThreadLocal' in str(tag)
    log = run_native(script, sup, sup_dead, named, meta.get('abort_after_entries'), tl, meta.get('abort_now', False))
    bad, tr = evaluate(prop, log, meta, sup)
    return {'replayed': bool(bad), 'detail': 'native scripted %sactor [%s]%s -> log %s ; violated %s' % ('thread-local ' if tl else '', script, ' aborted after %s entries' % meta['abort_after_entries'] if 'abort_after_entries' in meta else '', log, bad),
            'replay': {'scenario': 'life', 'prop': prop, 'script': script, 'meta': meta, 'sup': sup, 'sup_dead': sup_dead, 'named': named, 'thread_local': tl, 'violated': bad}}


def replay_guard(mode, armed, noc):
    # the guard is exercised natively through the lifecycle: a cancelled spawn (notify_on_cancel false) and an aborted task are covered by the repo's tests;
    # here: finish path = any normal exit
    return replay_trace('guard', [('CB', 'start', 'pre_start', 1), ('CB', 'end', 'pre_start', 1, 'ok'), ('START_OK',), ('CB', 'start', 'post_start', 2), ('CB', 'end', 'post_start', 2, 'ok'),
                                  ('LOOPEXIT', 'stop'), ('CB', 'start', 'post_stop', 3), ('CB', 'end', 'post_stop', 3, 'ok')], 'C04')


def replay_from_json(d):
    rp = d['replay']
    if rp.get('which') == 'kill_window':
        r = replay_kill_window()
        print(r['detail'])
        return 1 if r['replayed'] else 0
    if rp.get('which') == 'kill_preemption':
        r = replay_kill_preemption()
        print(r['detail'])
        return 1 if r['replayed'] else 0
    log = run_native(rp['script'], rp.get('sup', True), rp.get('sup_dead', False), rp.get('named', False), rp['meta'].get('abort_after_entries'), rp.get('thread_local', False), rp['meta'].get('abort_now', False))
    bad, tr = evaluate(rp['prop'], log, rp['meta'], rp.get('sup', True))
    print('native log:', log)
    print('violated:', bad)
    return 1 if bad else 0


def replay_start_cancelled(named, links=False):
    """the spawning future is dropped while pre_start is pending: the real start coroutine's locals (lifecycle guard, port set) are dropped by the compiler's
    drop shim; afterwards nothing of the actor is left"""
    script = 'pre_start/ok/400/' + ('linkobs' if links else '')
    out, lines, rc, err = native.run('life', script=script, sup=1, sup_dead=0, named=1 if named else 0, obs=1 if links else 0, cancel_start=1, timeout=30)
    if rc != 0:
        raise RuntimeError('native life (cancel_start) failed: ' + err[-300:])
    log = [x for x in out.get('log', '').split(',') if x]
    kv = dict(x.split(':', 1) for x in log if ':' in x and not x.startswith(('start:', 'end:', 'supevt')))
    bad = []
    if kv.get('start_cancelled') != '1':
        bad.append('the spawn completed before it could be cancelled: %s' % log)
        return bad, log
    if kv.get('final_status') != '6':
        bad.append('status_stopped: %s' % kv.get('final_status'))
    if named and kv.get('name_registered') != '0':
        bad.append('registries_and_groups_released: the name is still registered')
    if kv.get('pid_registered', '0') != '0':
        bad.append('registries_and_groups_released: the pid is still registered')
    if kv.get('sup_children') != '0' or kv.get('has_supervisor') != '0':
        bad.append('not_linked_to_supervisor: %s children, has_supervisor=%s' % (kv.get('sup_children'), kv.get('has_supervisor')))
    if links and kv.get('obs_children') != '0':
        bad.append('not_linked_to_observer')
    if any(x.startswith('supevt') for x in log):
        bad.append('no_supervision_event: %s' % [x for x in log if x.startswith('supevt')])
    if [x for x in log if x.startswith('start:') and x != 'start:pre_start']:
        bad.append('no_callback_other_than_pre_start')
    if kv.get('send_refused') != '1':
        bad.append('a message is still accepted by the cancelled actor')
    return bad, log


def replay_kill_window():
    """a kill delivered in the await-free stretch between the loop picking up a stop request / the drain marker and the first poll of post_stop (from the hook
    point in set_status(Stopping), on the actor's own thread): post_stop must not be entered and the exit is reported as killed"""
    bad, logs = [], {}
    for mode in ('stop', 'drain'):
        out, lines, rc, err = native.run('kill_window', mode=mode, timeout=30)
        if rc != 0:
            raise RuntimeError('native kill_window failed: ' + err[-300:])
        log = [x for x in out.get('log', '').split(',') if x]
        logs[mode] = log
        if 'kill_returned' not in log:
            bad.append('%s: the kill was not delivered in the window: %s' % (mode, log))
            continue
        after = log[log.index('kill_returned') + 1:]
        if 'post_stop_entered' in after:
            bad.append('%s: post_stop was entered after kill() had returned: %s' % (mode, log))
        if not any(x.startswith('supevt:ActorTerminated') and x.endswith('reason=killed') for x in after):
            bad.append('%s: the exit is not reported as killed: %s' % (mode, log))
    return {'replayed': bool(bad), 'detail': 'native actor killed between the stop pick-up and post_stop: %s' % (bad or logs), 'replay': {'which': 'kill_window'}}


def replay_kill_preemption():
    """a kill that is waiting when the actor task is next polled pre-empts the suspended callback: a handler (and post_start) that ticks between yields is
    killed from outside while it is suspended - it must not tick again after kill() returned"""
    bad, logs = [], {}
    for label, script in (('handle', 'pre_start/ok/0/;post_start/ok/0/msg;handle/ok/8/ticks'), ('post_start', 'pre_start/ok/0/;post_start/ok/8/ticks')):
        out, lines, rc, err = native.run('life', script=script, sup=1, sup_dead=0, named=0, kill_after_ticks=2, timeout=30)
        if rc != 0:
            raise RuntimeError('native life failed: ' + err[-300:])
        log = [x for x in out.get('log', '').split(',') if x]
        logs[label] = log
        if 'killed_externally' not in log:
            bad.append('%s: the kill was not delivered: %s' % (label, log))
            continue
        after = log[log.index('killed_externally') + 1:]
        late = [x for x in after if x.startswith(('tick:', 'end:', 'start:'))]
        if late:
            bad.append('%s went on after kill() had returned: %s' % (label, late))
    return {'replayed': bool(bad), 'detail': 'native scripted actor killed from outside while a ticking callback is suspended: %s' % (bad or logs), 'replay': {'which': 'kill_preemption'}}
