"""native replay for the C18 server slice: ConnectionAuthenticated handled by the real NodeServer::handle on a state with real session actors"""
import native


def replay(rp):
    out, _l, rc, err = native.run('node_commit', servers=[1 if s[0] else 0 for s in rp['sessions']], nonces=[s[1] for s in rp['sessions']], before=rp['before'], announcing=rp['announcing'], timeout=30)
    if rc != 0:
        raise RuntimeError('native node_commit failed: ' + err[-300:])
    ids = lambda s: sorted(int(x) for x in s.split(',') if x)
    after, stopped = set(ids(out.get('authenticated', ''))), ids(out.get('stopped', ''))
    cands = set(rp['before']) | {rp['announcing']}
    bad = []
    if not (cands - after) <= set(stopped):
        bad.append('every_authenticated_duplicate_that_lost_is_closed: lost %s, closed %s' % (sorted(cands - after), stopped))
    if set(stopped) & after:
        bad.append('no_surviving_connection_is_closed')
    if not set(stopped) <= cands or not after <= cands:
        bad.append('unauthenticated_connections_are_neither_counted_nor_closed')
    if not after:
        bad.append('some_connection_survives')
    return {'replayed': bool(bad), 'detail': 'native NodeServer ConnectionAuthenticated %s -> authenticated %s, closed %s ; violated %s' % (rp, sorted(after), stopped, bad), 'replay': {'which': 'server', 'rp': rp}}
