"""C18 - Cluster: duplicate connections converge on one and the same link.

[core] engine K (Kani/CBMC) on `ractor_cluster::node::elect_sessions`, reached through the hook wrapper
`node::verif_probe::verif_elect` (/verif/hooks/cluster_node.rs).  Harnesses: /verif/kani/vk/src/elect.rs.

Oracle (checked for every input of the stated shape, not sampled):
  (a) order independence: elect(perm(c)) and elect(c) are the same *set* for a generating set of permutations
      (n = 2: the swap; n = 3: swap of the first two and the rotation);
  (c) the result is a non-empty, duplicate-free subset of the candidates;
  (b) mirrored agreement.  The same multiset of physical connections (initiator, nonce) is seen by node A as
      (pa[i], srv[i], nonce[i]) and by node B as (pb[i], !srv[i], nonce[i]) with unrelated distinct local ids; with
      SA = elect at A, SB = elect at B (as sets of connection indices):
        b1  all connections in SA u SB have the same initiator;
        b2  the accepting endpoint of that direction elects exactly one connection;
        b3  that connection is in the initiator's set as well (the initiator has not closed the survivor);
        b4  everything the initiator still keeps carries the survivor's nonce (repeated or legacy nonce: the initiator
            cannot tell them apart and, by the code's protocol, waits for the acceptor's status reply);
        b5  if all nonces are distinct and non-zero, SA = SB and both are singletons.
      This is deliberately weaker than "SA = SB always": the comment in elect_sessions states that only the accepting
      endpoint can break a legacy/repeated-nonce tie and that outgoing ties remain alive until its reply arrives.
Outside the claim: n > 3 candidates; equal node names; the runtime protocol around the kernel (status replies, ready events,
handshake interleavings); the authentication filter feeding the kernel ([ext] in DESIGN: check_candidate & co).
"""
import json
import os
import sys
import threading
from exec import Inconclusive, Unmodelled

sys.path.insert(0, os.path.join(os.path.dirname(os.path.dirname(os.path.abspath(__file__))), 'kani'))
import kanirun   # noqa: E402
import native    # noqa: E402

LOW, HIGH = 'n1', 'n2'

HARNESSES = {
    'quick': ['elect::elect2_perm_swap', 'elect::elect2_mirror'],
    'thorough': ['elect::elect2_perm_swap', 'elect::elect2_mirror', 'elect::elect3_perm_swap', 'elect::elect3_perm_rot', 'elect::elect3_mirror'],
}
PERMS = {'elect::elect2_perm_swap': [1, 0], 'elect::elect3_perm_swap': [1, 0, 2], 'elect::elect3_perm_rot': [1, 2, 0]}


# ---------------------------------------------------------------------------------------------- native side
def native_elect(this, peer, cands, release=False):
    """cands: list of (pid, srv, nonce); returns list of elected pids or None on panic"""
    out, _, rc, err = native.run('elect', release=release, this=this, peer=peer, pids=[c[0] for c in cands],
                                 srv=[1 if c[1] else 0 for c in cands], nonces=[c[2] for c in cands])
    if rc != 0:
        raise RuntimeError('native elect failed: ' + err[-400:])
    if out.get('panicked') == 'true':
        return None
    return [int(x) for x in out.get('elected', '').split(',') if x]


def mask(pids, elected):
    """index set of the elected candidates; None if malformed (foreign id, duplicate, panic)"""
    if elected is None:
        return None
    s = set()
    for e in elected:
        if e not in pids:
            return None
        i = pids.index(e)
        if i in s:
            return None
        s.add(i)
    return s


def oracle_perm(inp, release=False):
    """(a) + (c) on one concrete instance; returns (violated clause or None, observations)"""
    n = len(inp['pid'])
    this, peer = (LOW, HIGH) if inp['this_is_low'] else (HIGH, LOW)
    c0 = [(inp['pid'][i], inp['srv'][i], inp['nonce'][i]) for i in range(n)]
    c1 = [c0[p] for p in inp['perm']]
    e0, e1 = native_elect(this, peer, c0, release), native_elect(this, peer, c1, release)
    obs = {'this': this, 'peer': peer, 'input': c0, 'permuted': c1, 'elected': e0, 'elected_permuted': e1}
    m0, m1 = mask(inp['pid'], e0), mask(inp['pid'], e1)
    if m0 is None or m1 is None or not m0 or not m1:
        return 'c_nonempty_duplicate_free_subset', obs
    if m0 != m1:
        return 'a_order_independent', obs
    return None, obs


def oracle_mirror(inp, release=False):
    """(b) on one concrete instance"""
    n = len(inp['pa'])
    na, nb = (LOW, HIGH) if inp['a_is_low'] else (HIGH, LOW)
    srv, nonce = inp['srv'], inp['nonce']
    ca = [(inp['pa'][i], srv[i], nonce[i]) for i in range(n)]
    cb = [(inp['pb'][i], not srv[i], nonce[i]) for i in range(n)]
    ea, eb = native_elect(na, nb, ca, release), native_elect(nb, na, cb, release)
    obs = {'name_a': na, 'name_b': nb, 'at_a': ca, 'at_b': cb, 'elected_at_a': ea, 'elected_at_b': eb}
    ma, mb = mask(inp['pa'], ea), mask(inp['pb'], eb)
    if ma is None or mb is None or not ma or not mb:
        return 'c_nonempty_duplicate_free_subset', obs
    union = ma | mb
    dirs = {bool(srv[i]) for i in union}
    if len(dirs) != 1:
        return 'b1_same_direction', obs
    acc, ini = (ma, mb) if True in dirs else (mb, ma)
    if len(acc) != 1:
        return 'b2_acceptor_elects_one', obs
    if not acc <= ini:
        return 'b3_survivor_kept_by_initiator', obs
    w = next(iter(acc))
    if any(nonce[i] != nonce[w] for i in ini):
        return 'b4_initiator_ties_share_nonce', obs
    if len(set(nonce)) == n and 0 not in nonce and not (ma == mb and len(ma) == 1):
        return 'b5_distinct_nonces_equal_singletons', obs
    return None, obs


def evaluate(scn, release=False):
    return oracle_perm(scn['input'], release) if scn['kind'] == 'perm' else oracle_mirror(scn['input'], release)


def replay_both(scn):
    """dev and release replay of one concrete scenario -> handle_cex result"""
    bad_dev, obs = evaluate(scn, release=False)
    try:
        bad_rel, _ = evaluate(scn, release=True)
    except Exception as e:   # noqa
        bad_rel = 'release replay failed: %r' % (e,)
    rep = bool(bad_dev)
    return {'replayed': rep,
            'detail': 'native %s replay: clause violated dev=%s release=%s; %s' % (scn['kind'], bad_dev, bad_rel, json.dumps(obs)),
            'replay': {'scenario': 'elect_' + scn['kind'], 'kind': scn['kind'], 'input': scn['input'], 'violated': bad_dev, 'violated_release': bad_rel,
                       'observed': obs, 'source': scn.get('source')}}


# ---------------------------------------------------------------------------------------------- counterexample extraction
def decode_playback(harness, test):
    """concrete values in the order of the harness' kani::any() calls -> scenario dict; None if the layout does not match"""
    v, w = test['vals'], test['widths']
    n = 3 if 'elect3' in harness else 2
    if harness in PERMS:
        if w != [1] * n + [8] * n + [8] * n + [1]:
            return None
        inp = {'srv': [bool(x & 1) for x in v[0:n]], 'nonce': v[n:2 * n], 'pid': v[2 * n:3 * n], 'this_is_low': bool(v[3 * n] & 1), 'perm': PERMS[harness]}
        if len(set(inp['pid'])) != n:
            return None
        return {'kind': 'perm', 'input': inp, 'source': 'kani concrete playback of %s (%s)' % (harness, test['check'])}
    if w != [1] * n + [8] * n + [8] * n + [8] * n + [1]:
        return None
    inp = {'srv': [bool(x & 1) for x in v[0:n]], 'nonce': v[n:2 * n], 'pa': v[2 * n:3 * n], 'pb': v[3 * n:4 * n], 'a_is_low': bool(v[4 * n] & 1)}
    if len(set(inp['pa'])) != n or len(set(inp['pb'])) != n:
        return None
    return {'kind': 'mirror', 'input': inp, 'source': 'kani concrete playback of %s (%s)' % (harness, test['check'])}


def native_search(n):
    """bounded exhaustive search on the real build (replay binary, oracle in Rust): nonces in {0..3}, all id orders, both name orders"""
    out, _, rc, err = native.run('elect_search', timeout=300, n=n)
    if rc != 0:
        raise RuntimeError('native elect_search failed: ' + err[-400:])
    return out


def search_to_scenarios(out):
    srv = [x == '1' for x in out['srv'].split(',')]
    nonce = [int(x) for x in out['nonces'].split(',')]
    pa = [int(x) for x in out['pa'].split(',')]
    pb = [int(x) for x in out['pb'].split(',')]
    low = out['a_is_low'] == '1'
    n = len(pa)
    scns = [{'kind': 'mirror', 'input': {'srv': srv, 'nonce': nonce, 'pa': pa, 'pb': pb, 'a_is_low': low}, 'source': 'native bounded search'}]
    for perm in ([[1, 0]] if n == 2 else [[1, 0, 2], [1, 2, 0]]):
        scns.append({'kind': 'perm', 'input': {'srv': srv, 'nonce': nonce, 'pid': pa, 'this_is_low': low, 'perm': perm}, 'source': 'native bounded search'})
    return scns


# ---------------------------------------------------------------------------------------------- driver
def run(ctx):
    tier = 'thorough' if ctx.tier == 'thorough' else 'quick'
    harnesses = HARNESSES[tier]
    nmax = 3 if tier == 'thorough' else 2
    ctx.extra['rule'] = ('engine K: one evaluation = one CBMC property (safety check, assertion or cover) decided by the SAT back end inside a harness run, '
                         'plus one per concrete instance of the native bounded cross-check; every harness quantifies over ALL inputs of its shape '
                         '(symbolic is_server flags, u64 nonces, u64 actor ids, both name orders). distinct_nontrivial = kani::cover! properties reported '
                         'SATISFIED (distinct interesting input regions shown reachable under the harness assumptions) plus native cross-check configurations.')
    ctx.bounds.update({
        'candidates_n': '2' if tier == 'quick' else '2 and 3',
        'is_server': 'symbolic per candidate', 'nonce': 'any u64 per candidate (0 = legacy / None), repeats allowed',
        'actor_ids': 'ActorId::Local(any u64), pairwise distinct per node; node B ids unrelated to node A ids',
        'node_names': '"n1" / "n2" in both orders (symbolic choice)',
        'unwind': {'n=2': 3, 'n=3': 4}, 'unwinding_assertions': 'on', 'kani_default_checks': 'on (panics, overflow, memory safety)',
        'assertion_reach_checks': 'off (--no-assertion-reach-checks, 40% faster); vacuity is guarded by the kani::cover! properties placed after the assertions',
        'permutations': 'n=2: swap; n=3: swap(0,1) and rotation (generate S3)',
        'server_slice': 'engine M: NodeServer::handle(ConnectionAuthenticated) with commit_authenticated and the real elect_sessions on 2 (thorough: also 3) sessions of one peer, '
                        'both directions, nonces none / equal / different, some already authenticated',
        'outside': 'n > %d; equal node names; ActorId::Remote candidates; the two nodes\' handshakes interleaving on a runtime (status replies, ready events)' % nmax})
    ctx.assumptions += [
        'Kani 0.68 / CBMC 6.11 translate the MIR of elect_sessions and the std Vec/iterator code it uses faithfully (bit-precise, sequential)',
        'hook wrapper /verif/hooks/cluster_node.rs only converts plain tuples to SessionElectionCandidate{ActorId::Local(pid), is_server, NonZeroU64::new(nonce)} and back',
        'candidate actor ids are distinct within a node (they are keys of NodeServerState.node_sessions); node names differ',
        'mirror model: node B sees the same physical connections with is_server flipped, the same nonce, its own arbitrary distinct local actor ids',
        'oracle (b) follows the protocol stated in the code comment: the accepting endpoint breaks legacy/repeated-nonce ties, the initiator keeps them alive '
        'until the status reply arrives - so the claim is acceptor elects exactly one, which the initiator has not closed, initiator-side ties share the '
        "survivor's nonce, and equal singletons for distinct non-zero nonces (not SA = SB in general)",
    ]
    f = kanirun.describe_fn('ractor_cluster/src/node.rs', 'elect_sessions', 'ractor_cluster::node::elect_sessions')
    if f is None:
        ctx.inconclusive.append('elect_sessions not found in ractor_cluster/src/node.rs (renamed or moved?)')
        return
    ctx.functions.append(f)
    ctx.samples.append({'oracle': __doc__.split('Oracle')[1].split('Outside the claim')[0].strip()})

    # Kani in a worker thread; native build + bounded cross-check meanwhile
    box = {}

    def kani_job():
        try:
            box['res'] = kanirun.verify(harnesses, jobs=len(harnesses), harness_timeout_s=600 if tier == 'quick' else 2400,
                                        wall_timeout_s=900 if tier == 'quick' else 3000, tag='C18', stubbing=False,
                                        extra=['--no-assertion-reach-checks'])
        except Exception as e:   # noqa
            box['exc'] = e
    th = threading.Thread(target=kani_job)
    th.start()

    native_found = []
    try:
        native.build()
        for n in range(2, nmax + 1):
            out = native_search(n)
            ctx.queries['unsat' if out.get('found') == 'false' else 'sat'] += int(out.get('examined', 0))
            ctx.translator_validated += int(out.get('examined', 0))
            ctx.extra.setdefault('native_cross_check', {})['n=%d' % n] = out
            ctx.note_witness('native cross-check n=%d examined %s instances on the real build' % (n, out.get('examined')), int(out.get('examined', 0)) > 0)
            if out.get('found') == 'true':
                native_found.append((n, out))
        # a handful of concrete instances written out (what a case looks like), oracle evaluated on the real build
        for scn in sample_scenarios():
            bad, obs = evaluate(scn)
            ctx.samples.append({'case': scn['kind'], 'input': scn['input'], 'observed': obs, 'violated': bad})
            ctx.translator_validated += 1
    except Exception as e:   # noqa
        ctx.inconclusive.append('native replay crate unavailable: %s' % str(e)[-500:])
    # engine M: what the node server does with the verdict (losing duplicates are really closed) - runs while Kani works
    try:
        import cluster
        import C18_server
        prog_c, _info = cluster.load()
        C18_server.check(ctx, prog_c)
        import C18_candidate
        C18_candidate.check(ctx, prog_c)
        import C18_session
        C18_session.check(ctx, prog_c)
        import C18_ready
        import C18_ready_replay
        C18_ready.check(ctx, prog_c)
        try:
            bad, n = C18_ready_replay.battery()
            ctx.translator_validated += n
            if bad:
                rec = {'name': 'ready.native_battery', 'group': 'C18.ready', 'solver_s': 0.0, 'status': 'cex'}
                ctx.obligations.append(rec)
                ctx.handle_cex(rec['name'], 'C18.ready.native', None, lambda _m: {'replayed': True, 'detail': 'real NodeServer ConnectionReady: %s' % bad[:3], 'replay': {'which': 'ready_battery'}}, rec)
        except RuntimeError as e:
            ctx.inconclusive.append('ready native battery unavailable: %s' % str(e)[-300:])
    except (Inconclusive, Unmodelled) as e:
        ctx.inconclusive.append('C18 server slice: %s: %s' % (type(e).__name__, str(e)[:300]))
    th.join()
    if 'exc' in box:
        raise box['exc']
    results, meta = box['res']
    ctx.extra['kani'] = {k: meta.get(k) for k in ('cmd', 'rustflags', 'kani', 'cbmc', 'build_s', 'wall_s', 'harness_timeout_s', 'mem_limit_kb_per_process')}
    ctx.extra['checker_cmd'] = meta['cmd']
    failed = kanirun.record(ctx, results, meta, group='elect_sessions')
    src = kanirun.harness_source('elect', harnesses)
    ctx.samples.append({'harness_source': '/verif/kani/vk/src/elect.rs', 'selected': harnesses, 'text': src})
    for name, hr in results.items():
        ctx.samples.append(hr.as_dict())

    for hr, rec in failed:
        key = 'elect.' + ('order' if hr.name in PERMS else 'mirror')
        ctx.handle_cex(hr.name, key, None, lambda _m, hr=hr: concretise_and_replay(ctx, hr, native_found), rec)
    if not failed and native_found:
        # the real build violates the oracle on a concrete instance Kani did not flag: replayed ground truth decides
        for n, out in native_found:
            rec = {'name': 'native.elect_search.n%d' % n, 'group': 'elect_sessions', 'solver_s': 0.0, 'status': 'cex'}
            ctx.handle_cex(rec['name'], 'elect.native', None, lambda _m, out=out: first_reproducing(search_to_scenarios(out)), rec)
            ctx.obligations.append(rec)


def first_reproducing(scns):
    last = {'replayed': False, 'detail': 'no scenario to replay'}
    for scn in scns:
        last = replay_both(scn)
        if last['replayed']:
            return last
    return last


def concretise_and_replay(ctx, hr, native_found):
    """a failed Kani harness is only a candidate: obtain concrete inputs and reproduce on the real build.
    1. the native bounded search (same oracle, real build, < 1 s) usually concretises the failure at once;
    2. otherwise Kani's concrete playback (`-Z concrete-playback --concrete-playback=print`, several minutes) supplies the solver's values."""
    notes = []
    res = {'replayed': False, 'detail': 'no concrete values obtained'}
    kind = 'perm' if hr.name in PERMS else 'mirror'
    for n, out in native_found:
        cand = [s for s in search_to_scenarios(out) if s['kind'] == kind] + [s for s in search_to_scenarios(out) if s['kind'] != kind]
        res = first_reproducing(cand)
        if res['replayed']:
            notes.append('concretised by the native bounded search (n=%d)' % n)
            break
    if not res['replayed']:
        scns = []
        try:
            tests, pmeta = kanirun.playback(hr.name, harness_timeout_s=1200 if ctx.tier == 'quick' else 3000, tag='C18', stubbing=False)
            notes.append('kani playback %ss, %d tests' % (pmeta['wall_s'], len(tests)))
            for t in tests:
                if t['kind'] == 'cover':
                    continue
                s = decode_playback(hr.name, t)
                if s is None:
                    notes.append('playback values for "%s" do not match the harness layout: widths %s' % (t['check'], t['widths']))
                else:
                    scns.append(s)
        except Exception as e:   # noqa
            notes.append('playback failed: %r' % (e,))
        if scns:
            res = first_reproducing(scns)
    res['detail'] = 'kani failed checks %s; %s; %s' % ([c['description'] for c in hr.failed[:3]], '; '.join(notes), res.get('detail'))
    return res


def sample_scenarios():
    return [
        # the shapes of node::tests, written as physical connections
        {'kind': 'mirror', 'input': {'srv': [False, True], 'nonce': [101, 202], 'pa': [1, 2], 'pb': [11, 12], 'a_is_low': True}},
        {'kind': 'mirror', 'input': {'srv': [True, True], 'nonce': [7, 7], 'pa': [5, 3], 'pb': [11, 12], 'a_is_low': False}},
        {'kind': 'mirror', 'input': {'srv': [True, False, True], 'nonce': [0, 9, 0], 'pa': [8, 4, 6], 'pb': [30, 10, 20], 'a_is_low': False}},
        {'kind': 'perm', 'input': {'srv': [True, True, True], 'nonce': [0, 0, 0], 'pid': [9, 3, 5], 'this_is_low': True, 'perm': [1, 2, 0]}},
    ]


def replay_file(path):
    d = json.load(open(path))
    rp = d.get('replay') or {}
    if rp.get('which') in ('ready', 'ready_battery'):
        import C18_ready_replay
        bad, _n = C18_ready_replay.battery()
        if rp['which'] == 'ready':
            bad += C18_ready_replay.evaluate(rp['rp']['sessions'], rp['rp']['auth'])[0]
        print('native NodeServer ConnectionReady:', bad)
        return 1 if bad else 0
    if rp.get('which') == 'session':
        import C18_session
        r = C18_session.replay(rp['rp'])
        print(r['detail'])
        return 1 if r['replayed'] else 0
    if rp.get('which') == 'candidate':
        import C18_candidate_replay
        r = C18_candidate_replay.replay(rp['rp'])
        print(r['detail'])
        return 1 if r['replayed'] else 0
    if rp.get('which') == 'server':
        import C18_server_replay
        r = C18_server_replay.replay(rp['rp'])
        print(r['detail'])
        return 1 if r['replayed'] else 0
    if rp.get('kind') not in ('perm', 'mirror'):
        print('unknown replay scenario')
        return 2
    bad, obs = evaluate(rp)
    print('native %s replay ->' % rp['kind'], json.dumps(obs), 'violated:', bad)
    return 1 if bad else 0
