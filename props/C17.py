"""C17 - Cluster: nothing from a peer takes effect before authentication.

Decided on the MIR of ractor_cluster (engine M):
  A  the two handshake state machines (`ServerAuthenticationProcess::{next,start_challenge}`, `ClientAuthenticationProcess::next`): one step
     from every state on every message shape with symbolic payloads; hash::challenge_digest is an uninterpreted function
  B  `AuthenticationState::{is_ok,is_close}` agree with the machines' Ok / Close states
  C  the gates: `handle_node`, `handle_control` (first poll) from every unauthenticated state perform no call at all besides the gate
     itself; `authorized_local_actor` and the Cast / Call arms deliver only to an advertised, remotable local actor
  D  `handle_auth` (coroutine, real MIR): the stored state after the call is the machine's verdict, never better
"""
import itertools
import re
import z3

import cluster as cl
import models_std
import lifeprops as lp
from exec import State, Outcome, Inconclusive, Unmodelled
from values import *

SERVER = 'ServerAuthenticationProcess'
CLIENT = 'ClientAuthenticationProcess'
DIGEST_LENS = (0, 31, 32, 33)

# the handshake as documented on the two enums (auth.rs): (state, message) pairs that are in order
SERVER_EXPECTED = {('WaitingOnPeerName', 'Name'): {'HavePeerName'},
                   ('WaitingOnClientStatus', 'ClientStatus'): {'Close', 'WaitingOnClientChallengeReply'},
                   ('WaitingOnClientChallengeReply', 'ClientChallenge'): {'Ok', 'Close'}}
CLIENT_EXPECTED = {('WaitingForServerStatus', 'ServerStatus'): {'WaitingForServerChallenge'},
                   ('WaitingForServerChallenge', 'ServerChallenge'): {'WaitingForServerChallengeAck'},
                   ('WaitingForServerChallengeAck', 'ServerAck'): {'Ok', 'Close'}}


# ------------------------------------------------------------------ symbolic protocol values
def server_state(prog, I, st, v):
    if v == 'HavePeerName':
        f = (Opaque('NameMessage', ident='stored-name'),)
    elif v == 'WaitingOnClientChallengeReply':
        f = (I.fresh_int('st_challenge', 'u32', st), Agg('[]', cl.sym_bytes(I, st, 'st_digest', 32)))
    elif v == 'Ok':
        f = (Agg('[]', cl.sym_bytes(I, st, 'ok_digest', 32)),)
    else:
        f = ()
    return cl.variant(prog, SERVER, v, f)


def client_state(prog, I, st, v):
    if v == 'WaitingForServerChallenge':
        f = (cl.record(prog, 'ServerStatus', 'out/auth.rs', status=I.fresh_int('st_status', 'i32', st)),)
    elif v == 'WaitingForServerChallengeAck':
        ch = cl.record(prog, 'Challenge', 'out/auth.rs', challenge=I.fresh_int('st_srv_challenge', 'u32', st))
        f = (ch, Agg('[]', cl.sym_bytes(I, st, 'st_reply', 32)), I.fresh_int('st_our_challenge', 'u32', st), Agg('[]', cl.sym_bytes(I, st, 'st_expected', 32)))
    else:
        f = ()
    return cl.variant(prog, CLIENT, v, f)


def auth_messages(prog, I, st):
    """every shape of AuthenticationMessage: no payload, and each oneof variant with symbolic fields; digests of length 0, 31, 32, 33"""
    out = [('None', None, models_std.NONE)]
    for (v, idx, kind, fl) in cl.variants(prog, 'Msg', 'out/auth.rs'):
        pls = []
        if v == 'Name':
            pls = [('', Opaque('NameMessage', ident='msg-name'))]
        elif v == 'ServerStatus':
            pls = [('', cl.record(prog, 'ServerStatus', 'out/auth.rs', status=I.fresh_int('msg_status', 'i32', st)))]
        elif v == 'ClientStatus':
            pls = [('', cl.record(prog, 'ClientStatus', 'out/auth.rs', status=z3.Bool('msg_client_status!%d' % fresh_id()))) ]
        elif v == 'ServerChallenge':
            pls = [('', cl.record(prog, 'Challenge', 'out/auth.rs', challenge=I.fresh_int('msg_srv_challenge', 'u32', st)))]
        elif v == 'ClientChallenge':
            pls = [('/len%d' % n, cl.record(prog, 'ChallengeReply', 'out/auth.rs', challenge=I.fresh_int('msg_reply_challenge', 'u32', st),
                                            digest=Agg('Vec', cl.sym_bytes(I, st, 'msg_reply_digest%d' % n, n)))) for n in DIGEST_LENS]
        elif v == 'ServerAck':
            pls = [('/len%d' % n, cl.record(prog, 'ChallengeAck', 'out/auth.rs', digest=Agg('Vec', cl.sym_bytes(I, st, 'msg_ack_digest%d' % n, n)))) for n in DIGEST_LENS]
        else:
            raise Inconclusive('authentication_message::Msg has an unknown variant %s: extend the check' % v)
        for suffix, pl in pls:
            out.append((v + suffix, v, models_std.some(Enum('Msg', v, idx, (pl,)))))
    return out


def bytes_eq(a, b):
    if len(a.fields) != len(b.fields):
        return z3.BoolVal(False)
    return z3.And([x.t == y.t for x, y in zip(a.fields, b.fields)])


# ------------------------------------------------------------------ A: the state machines
def check_fsm(ctx, prog, which):
    enum = SERVER if which == 'server' else CLIENT
    expected = SERVER_EXPECTED if which == 'server' else CLIENT_EXPECTED
    mk = server_state if which == 'server' else client_state
    body = prog.find_fn('%s::next' % enum)
    if body is None:
        raise Inconclusive('%s::next not found' % enum)
    ctx.encoded(prog, body)
    seen = set()
    vs = [v[0] for v in cl.variants(prog, enum)]
    for need in ('Ok', 'Close'):
        if need not in vs:
            raise Inconclusive('%s has no %s state' % (enum, need))
    for sv in vs:
        I = cl.new_interp(prog)
        st0 = State()
        for mname, mvar, mv in auth_messages(prog, I, st0):
            st = st0.fork()
            s = mk(prog, I, st, sv)
            sc = st.alloc(s)
            msg = cl.record(prog, 'AuthenticationMessage', 'out/auth.rs', msg=mv)
            outs = I.run_body(st, body, [Ref(sc, ()), msg, Str('the-cookie')])
            ctx.paths += len(outs)
            for k, o in enumerate(outs):
                name = '%s.%s.%s.path%d' % (which, sv, mname, k)
                cex = (lambda sv=sv, mname=mname: (lambda m: replay_fsm(which, sv, mname, m)))()
                if o.kind != 'ret' or not isinstance(o.val, Enum):
                    lp.record(ctx, name, o.st, {'returns_a_state': False}, 'C17.%s' % which, on_cex=cex)
                    continue
                nv = o.val.variant
                seen.add((sv, mvar, nv))
                grp = 'C17.%s' % which
                # 1. Close is absorbing
                if sv == 'Close':
                    ctx.prove(name + '.close_is_absorbing', o.st.pc, z3.BoolVal(nv == 'Close'), group=grp + '.close_is_absorbing', key=grp + '.close_is_absorbing', on_cex=cex)
                # 2. out-of-order / empty message closes the session
                if (sv, mvar) not in expected:
                    ctx.prove(name + '.unexpected_message_closes', o.st.pc, z3.BoolVal(nv == 'Close'), group=grp + '.unexpected_message_closes', key=grp + '.unexpected_message_closes',
                              sample={'machine': which, 'state': sv, 'message': mname, 'next': nv}, on_cex=cex)
                else:
                    ctx.prove(name + '.expected_message_moves_along_the_handshake', o.st.pc, z3.BoolVal(nv in expected[(sv, mvar)]), group=grp + '.in_order_successors',
                              key=grp + '.in_order_successors', on_cex=cex)
                # 3. Ok only from the challenge state, on a reply whose digest equals the stored expected digest (all 32 bytes, same length)
                if which == 'server':
                    if nv == 'Ok':
                        okk = z3.BoolVal(False)
                        if sv == 'WaitingOnClientChallengeReply' and mvar == 'ClientChallenge':
                            reply = mv.fields[0].fields[0]
                            okk = bytes_eq(s.fields[1], cl.field(prog, reply, 'ChallengeReply', 'digest', 'out/auth.rs'))
                        ctx.prove(name + '.ok_only_on_matching_digest', o.st.pc, okk, group=grp + '.ok_only_on_matching_digest', key=grp + '.ok_only_on_matching_digest',
                                  sample={'machine': which, 'state': sv, 'message': mname, 'claim': 'next == Ok => reply.digest == expected digest (32 bytes)'}, on_cex=cex)
                    if sv == 'WaitingOnClientChallengeReply' and mvar == 'ClientChallenge' and nv != 'Ok':
                        # wrong digest closes
                        ctx.prove(name + '.wrong_digest_closes', o.st.pc, z3.BoolVal(nv == 'Close'), group=grp + '.wrong_digest_closes', key=grp + '.wrong_digest_closes', on_cex=cex)
                    if nv == 'WaitingOnClientChallengeReply':
                        # the stored expected digest is the digest of the real cookie and of the challenge drawn just now
                        r = o.st.ghost.get('rand', [])
                        good = z3.BoolVal(False)
                        if len(r) == 1:
                            good = z3.And(o.val.fields[0].t == r[0].t, bytes_eq(o.val.fields[1], cl.digest_of(r[0].t)))
                        ctx.prove(name + '.expected_digest_is_of_fresh_challenge', o.st.pc, good, group=grp + '.expected_digest_is_of_fresh_challenge',
                                  key=grp + '.expected_digest_is_of_fresh_challenge', on_cex=cex)
                else:
                    if nv == 'Ok':
                        okk = z3.BoolVal(False)
                        if sv == 'WaitingForServerChallengeAck' and mvar == 'ServerAck':
                            ack = mv.fields[0].fields[0]
                            okk = bytes_eq(s.fields[3], cl.field(prog, ack, 'ChallengeAck', 'digest', 'out/auth.rs'))
                        ctx.prove(name + '.ok_only_on_matching_digest', o.st.pc, okk, group=grp + '.ok_only_on_matching_digest', key=grp + '.ok_only_on_matching_digest',
                                  sample={'machine': which, 'state': sv, 'message': mname, 'claim': 'next == Ok => ack.digest == expected digest (32 bytes)'}, on_cex=cex)
                    if sv == 'WaitingForServerChallengeAck' and mvar == 'ServerAck' and nv != 'Ok':
                        ctx.prove(name + '.wrong_digest_closes', o.st.pc, z3.BoolVal(nv == 'Close'), group=grp + '.wrong_digest_closes', key=grp + '.wrong_digest_closes', on_cex=cex)
                    if nv == 'WaitingForServerChallengeAck':
                        r = o.st.ghost.get('rand', [])
                        good = z3.BoolVal(False)
                        if len(r) == 1:
                            good = z3.And(o.val.fields[2].t == r[0].t, bytes_eq(o.val.fields[3], cl.digest_of(r[0].t)))
                        ctx.prove(name + '.expected_digest_is_of_fresh_challenge', o.st.pc, good, group=grp + '.expected_digest_is_of_fresh_challenge',
                                  key=grp + '.expected_digest_is_of_fresh_challenge', on_cex=cex)
        ctx.absorb(I)
    # vacuity: the handshake can complete, and a wrong digest is really rejected
    ok_from = 'WaitingOnClientChallengeReply' if which == 'server' else 'WaitingForServerChallengeAck'
    ok_msg = 'ClientChallenge' if which == 'server' else 'ServerAck'
    ctx.note_witness('C17.%s.handshake_can_complete' % which, (ok_from, ok_msg, 'Ok') in seen)
    ctx.note_witness('C17.%s.wrong_digest_reaches_close' % which, (ok_from, ok_msg, 'Close') in seen)
    ctx.extra.setdefault('handshake_transitions', {})[which] = sorted('%s --%s--> %s' % t for t in seen if t[2] != 'Close')


def check_start_challenge(ctx, prog):
    body = prog.find_fn('%s::start_challenge' % SERVER)
    if body is None:
        raise Inconclusive('start_challenge not found')
    ctx.encoded(prog, body)
    started = 0
    for sv in [v[0] for v in cl.variants(prog, SERVER)]:
        I = cl.new_interp(prog)
        st = State()
        s = server_state(prog, I, st, sv)
        sc = st.alloc(s)
        outs = I.run_body(st, body, [Ref(sc, ()), Str('the-cookie')])
        ctx.absorb(I)
        ctx.paths += len(outs)
        for k, o in enumerate(outs):
            name = 'server.start_challenge.%s.path%d' % (sv, k)
            cex = (lambda sv=sv: (lambda m: replay_fsm('start_challenge', sv, 'None', m)))()
            if o.kind != 'ret' or not isinstance(o.val, Enum):
                lp.record(ctx, name, o.st, {'returns_a_state': False}, 'C17.server', on_cex=cex)
                continue
            nv = o.val.variant
            allowed = {'WaitingOnClientChallengeReply'} if sv in ('WaitingOnClientStatus', 'HavePeerName') else {'Close'}
            ctx.prove(name + '.only_from_name_or_status_states', o.st.pc, z3.BoolVal(nv in allowed), group='C17.server.start_challenge', key='C17.server.start_challenge', on_cex=cex)
            if nv == 'WaitingOnClientChallengeReply':
                started += 1
                r = o.st.ghost.get('rand', [])
                good = z3.BoolVal(False)
                if len(r) == 1:
                    good = z3.And(o.val.fields[0].t == r[0].t, bytes_eq(o.val.fields[1], cl.digest_of(r[0].t)))
                ctx.prove(name + '.expected_digest_is_of_fresh_challenge', o.st.pc, good, group='C17.server.expected_digest_is_of_fresh_challenge',
                          key='C17.server.expected_digest_is_of_fresh_challenge', on_cex=cex)
    ctx.note_witness('C17.server.start_challenge_reaches_challenge_state', started > 0)


# ------------------------------------------------------------------ B: is_ok / is_close
def auth_states(prog, I, st):
    """every AuthenticationState: AsServer(s) / AsClient(c) for every machine state; returns (label, value, is_ok, is_close)"""
    out = []
    for v in [x[0] for x in cl.variants(prog, SERVER)]:
        out.append(('AsServer(%s)' % v, cl.variant(prog, 'AuthenticationState', 'AsServer', (server_state(prog, I, st, v),)), v == 'Ok', v == 'Close'))
    for v in [x[0] for x in cl.variants(prog, CLIENT)]:
        out.append(('AsClient(%s)' % v, cl.variant(prog, 'AuthenticationState', 'AsClient', (client_state(prog, I, st, v),)), v == 'Ok', v == 'Close'))
    return out


def check_predicates(ctx, prog):
    for fn, idx in (('AuthenticationState::is_ok', 2), ('AuthenticationState::is_close', 3)):
        body = prog.find_fn(fn)
        if body is None:
            raise Inconclusive(fn + ' not found')
        ctx.encoded(prog, body)
        I = cl.new_interp(prog)
        st0 = State()
        for rec in auth_states(prog, I, st0):
            st = st0.fork()
            c = st.alloc(rec[1])
            outs = I.run_body(st, body, [Ref(c, ())])
            ctx.paths += len(outs)
            for k, o in enumerate(outs):
                name = 'predicates.%s.%s.path%d' % (fn.split('::')[1], rec[0], k)
                if o.kind != 'ret':
                    lp.record(ctx, name, o.st, {'returns': False}, 'C17.predicates', on_cex=lambda m: replay_gate('predicate', {}))
                    continue
                ctx.prove(name, o.st.pc, I.as_bool(o.val) == z3.BoolVal(rec[idx]), group='C17.predicates.%s_iff_machine_state' % fn.split('::')[1],
                          key='C17.predicates', on_cex=(lambda lab=rec[0]: (lambda m: replay_gate('node', {'auth': lab, 'advertised': True, 'remotable': True})))())
        ctx.absorb(I)


# ------------------------------------------------------------------ replay
_replayed = {}


def replay_fsm(which, sv, mname, model):
    import C17_replay
    k = (which, sv, mname)
    if k not in _replayed:
        _replayed[k] = C17_replay.replay_fsm(which, sv, mname, model)
    return _replayed[k]


def replay_gate(which, params):
    import C17_replay
    k = (which, tuple(sorted(params.items())))
    if k not in _replayed:
        _replayed[k] = C17_replay.replay_gate(which, params)
    return _replayed[k]


def replay_auth(lab, mname, model):
    import C17_replay
    k = ('auth', lab, mname)
    if k not in _replayed:
        _replayed[k] = C17_replay.replay_auth(lab, mname, model)
    return _replayed[k]


def replay_sessions():
    import C17_replay
    if 'sessions' not in _replayed:
        _replayed['sessions'] = C17_replay.replay_sessions()
    return _replayed['sessions']


def replay_dispatch(lab, mname, model):
    import C17_replay
    k = ('dispatch', lab, mname)
    if k not in _replayed:
        _replayed[k] = C17_replay.replay_dispatch(lab, mname, model)
    return _replayed[k]


def run(ctx):
    prog, info = cl.load()
    ctx.bounds.update({
        'machines': 'one step of each handshake machine from every state (payloads symbolic) on every message shape: empty message and each of the oneof variants '
                    'with symbolic scalar fields; digests of length 0, 31, 32, 33 with symbolic bytes',
        'histories': 'arbitrary length by induction over single steps: Close is absorbing, Ok is entered only by the digest comparison, the expected digest stored in a challenge state is '
                     'always challenge_digest(real cookie, freshly drawn challenge)',
        'outside': 'cryptographic strength of challenge_digest (uninterpreted function: a peer that can compute it is, by definition, one that knows the cookie); digests of other lengths than 0/31/32/33; '
                   'decoding of frames into messages (prost); TCP / TLS transport',
    })
    ctx.assumptions += ['hash::challenge_digest(cookie, c) is a function of (cookie, c) only (uninterpreted; one fixed real cookie)', 'rand next_u32 returns an arbitrary u32',
                        'Vec<u8> equality is length equality and element-wise equality; <[u8]>::to_vec copies']
    check_fsm(ctx, prog, 'server')
    check_fsm(ctx, prog, 'client')
    check_start_challenge(ctx, prog)
    check_predicates(ctx, prog)
    import C17_gates
    C17_gates.run(ctx, prog)


def replay_file(path):
    import json
    import C17_replay
    return C17_replay.replay_file(json.load(open(path)))
