"""C11 - Process groups reflect live membership and tell their monitors (sequential slice).

Every public pg operation and the two exit-time operations are run from MIR on every concrete-shape state of the four indexes that satisfies the
representation invariant (two groups, actors a / b as members, l as per-group / per-scope / global monitor; each actor's status symbolic):
  * the invariant is re-established (forward maps, scope index and reverse index agree; no empty entries; no duplicate listeners)
  * a stopping / stopped actor is never added as member or monitor; leave_all + demonitor_all leave the actor in no index at all
  * every effective join / leave produces exactly one notification per monitor of that group, of its scope and of all scopes, with the right payload,
    and notifies nobody else
  * the query functions agree with the membership
The DashMap shard locks and the relations mutexes are not exercised: operations are atomic here (concurrency is outside this slice)."""
import itertools
import re
import z3

import pgworld as pw
import models_std
import lifeprops as lp
from exec import State, Outcome, Inconclusive, Unmodelled
from values import *

G = ('g1', 'g2')


def states(S):
    """(members, listeners, world) dictionaries"""
    out = []
    subsets = [(), ('a',), ('b',), ('a', 'b')]
    for m1 in subsets:
        for m2 in subsets:
            for lis in ((), ('g1',)):
                for wl in ((), ('scope',), ('all',)):
                    members = {(S['D'], 'g1'): list(m1), (S['D'], 'g2'): list(m2)}
                    listeners = {(S['D'], g): ['l'] for g in lis}
                    world = {}
                    if 'scope' in wl:
                        world[(S['D'], S['AG'])] = ['l']
                    if 'all' in wl:
                        world[(S['AS'], S['AG'])] = ['l']
                    out.append((members, listeners, world))
    return out


def tag(members, listeners, world, S):
    return 'g1%s.g2%s.l%s%s' % (''.join(members[(S['D'], 'g1')]) or '-', ''.join(members[(S['D'], 'g2')]) or '-', 'G' if listeners else '-',
                                  'S' if (S['D'], S['AG']) in world else ('A' if world else '-'))


def run_op(prog, S, members, listeners, world, fn, mkargs, statuses=None):
    I = pw.new_interp(prog)
    st = State()
    w = pw.World(prog, I, st, {k: list(v) for k, v in members.items()}, listeners, world, statuses=statuses)
    body = prog.find_fn(fn)
    if body is None:
        raise Inconclusive(fn + ' not found')
    outs = I.run_body(st, body, mkargs(I, st))
    return I, w, body, outs


def lock_invariant(o):
    """whenever the guard of a group's entry in the forward map is released, the scope index lists the group iff it has members"""
    rel = [e for e in o.st.trace if e[0] == 'RELEASE']
    return all(e[1] is not None and e[2] == e[3] for e in rel), len(rel)


def lock_invariant_reverse(o):
    """... and every actor's reverse index (its relations record) names the group iff the actor is a member of it"""
    rel = [e for e in o.st.trace if e[0] == 'RELEASE']
    return all(e[1] is not None and e[4] is True for e in rel)


def looked_under_lock(trace, x, mx):
    """the trace has lock(mx) .. STATUS_READ(x) with no unlock(mx) in between"""
    held = False
    for e in trace:
        if e[0] == 'OP' and e[1] == mx and e[2] == 'lock':
            held = True
        elif e[0] == 'OP' and e[1] == mx and e[2] == 'unlock':
            held = False
        elif e[0] == 'STATUS_READ' and e[1] == x and held:
            return True
    return False


def notifications(o):
    res = []
    for e in o.st.trace:
        if e[0] == 'NOTIFY':
            ev = e[2]
            ch = ev.fields[0] if isinstance(ev, Enum) and ev.variant == 'ProcessGroupChanged' else None
            if ch is None:
                res.append((e[1], 'other', None, None, None))
            else:
                res.append((e[1], ch.variant, ch.fields[0].s, ch.fields[1].s, tuple(x.fields[0].ident for x in ch.fields[2].fields)))
    return res


def expected_recipients(S, listeners, world, g):
    r = []
    if 'l' in listeners.get((S['D'], g), []):
        r.append('l')
    if 'l' in world.get((S['D'], S['AG']), []):
        r.append('l')
    if 'l' in world.get((S['AS'], S['AG']), []):
        r.append('l')
    return r


def check_mutations(ctx, prog, S):
    seen = set()
    le = lambda I, w, a: z3.ULE(w.status[a].t, 4)
    for (members, listeners, world) in states(S):
        t = tag(members, listeners, world, S)
        # ---------------- join_scoped / leave_scoped
        for g in G:
            for who in (('a',), ('b',), ('a', 'a'), ('a', 'b')):
                if g == 'g2' and len(who) > 1:
                    continue
                for op in ('join_scoped', 'leave_scoped'):
                    I, w, body, outs = run_op(prog, S, members, listeners, world, 'pg::' + op, lambda I, st: [Str(S['D']), Str(g), Agg('Vec', [pw.actor(x) for x in who])], statuses={'l': 2})
                    ctx.absorb(I)
                    ctx.paths += len(outs)
                    for k, o in enumerate(outs):
                        name = '%s.%s.%s.%s.path%d' % (op, t, g, ''.join(who), k)
                        cex = (lambda op=op, g=g, who=who, members=members, listeners=listeners, world=world: (lambda m: replay(op, g, who, members, listeners, world, S)))()
                        if o.kind != 'ret':
                            lp.record(ctx, name, o.st, {'no_panic': False}, 'C11.' + op, on_cex=cex)
                            continue
                        s = w.read(o.st)
                        claims = dict(pw.invariant(s))
                        claims['index_agrees_with_membership_whenever_the_group_entry_is_released'], n_rel = lock_invariant(o)
                        claims['reverse_index_agrees_with_membership_whenever_the_group_entry_is_released'] = lock_invariant_reverse(o)
                        before = set(members[(S['D'], g)])
                        after = set(s['members'].get((S['D'], g), []))
                        other = 'g2' if g == 'g1' else 'g1'
                        claims['other_groups_untouched'] = sorted(s['members'].get((S['D'], other), [])) == sorted(members[(S['D'], other)])
                        # join / monitor clone an actor's relations record out of the reverse index first and lock it later: that is only sound because the record
                        # of an actor stays in the index until the actor has published Stopping. No operation may remove the record of a live actor.
                        had_record = {x for m_ in members.values() for x in m_} | {x for l_ in listeners.values() for x in l_} | {x for l_ in world.values() for x in l_}
                        for x in sorted(had_record):
                            live = le(I, w, x) if x in w.status else z3.BoolVal(True)
                            ctx.prove('%s.%s_relations_record_survives_while_the_actor_is_live' % (name, x), o.st.pc, z3.Or(z3.BoolVal(x in s['relations']), z3.Not(live)),
                                      group='C11.%s.the_relations_record_of_a_live_actor_is_never_removed' % op, key='C11.' + op + '.the_relations_record_of_a_live_actor_is_never_removed', on_cex=(lambda m: replay_last_leave()))
                        notes = notifications(o)
                        want_rcpt = expected_recipients(S, listeners, world, g)
                        if op == 'join_scoped':
                            added = after - before
                            claims['join_never_removes'] = before <= after
                            for x in set(who):
                                # a stopping / stopped actor is never added; an actor that may join does join
                                ctx.prove('%s.%s_member_iff_status_allows' % (name, x), o.st.pc, z3.BoolVal(x in after) == z3.Or(z3.BoolVal(x in before), le(I, w, x)),
                                          group='C11.join.member_iff_not_stopping', key='C11.join', on_cex=cex)
                            accepted = tuple(x for x in who if x in after and (x not in before or True))
                            if after and any(x in after for x in who) and [n for n in notes]:
                                seen.add('join_notified')
                            # notifications: one per monitor, payload = the accepted actors of this call (in call order), only if some actor was accepted
                            joined_now = [x for x in who if x in after]
                            eff = bool(joined_now) and any(z3.is_true(z3.simplify(le(I, w, x))) or True for x in joined_now)
                            if notes:
                                claims['join_notifies_exactly_the_monitors_once'] = sorted(n[0] for n in notes) == sorted(want_rcpt)
                                claims['join_payload_is_scope_group_and_joined_actors'] = all(n[1] == 'Join' and n[2] == S['D'] and n[3] == g and set(n[4]) <= set(who) and set(n[4]) <= after for n in notes)
                            else:
                                # silence is right only if nobody monitors or nobody was accepted in this call
                                accepted_any = z3.Or([le(I, w, x) for x in set(who)])
                                ctx.prove(name + '.silent_only_without_monitor_or_acceptance', o.st.pc, z3.Or(z3.BoolVal(not want_rcpt), z3.Not(accepted_any)), group='C11.join.notifications', key='C11.join', on_cex=cex)
                            if added:
                                seen.add('join_effective')
                                # the exit publishes Stopping and only then takes the actor's relations lock to clean up: a join is safe against a racing exit only
                                # if the status look that lets the actor in happens while the join holds that very lock (a look before it can be overtaken by a whole exit)
                                mxs = w.mutex_of(o.st)
                                for x in sorted(added):
                                    ctx.prove('%s.%s_admitted_on_a_status_look_taken_under_its_relations_lock' % (name, x), o.st.pc, z3.BoolVal(looked_under_lock(o.st.trace, x, mxs.get(x))),
                                              group='C11.join.admitted_on_a_status_look_taken_under_the_relations_lock', key='C11.join.admitted_on_a_status_look_taken_under_the_relations_lock',
                                              on_cex=(lambda m: replay_join_exit()))
                                seen.add('join_lock_look')
                        else:
                            claims['leave_removes_exactly_the_named_actors'] = after == before - set(who)
                            if before & set(who):
                                seen.add('leave_effective')
                                claims['leave_notifies_exactly_the_monitors_once'] = sorted(n[0] for n in notes) == sorted(want_rcpt)
                                claims['leave_payload_is_scope_group_and_actors'] = all(n[1] == 'Leave' and n[2] == S['D'] and n[3] == g and tuple(n[4]) == tuple(who) for n in notes)
                            claims['nobody_else_is_notified'] = set(n[0] for n in notes) <= {'l'}
                        lp.record(ctx, name, o.st, claims, 'C11.' + op, sample={'state': t, 'op': op, 'group': g, 'actors': list(who), 'members_after': sorted(after), 'notified': [n[:2] for n in notes]} if k == 0 and t.startswith('g1a.g2-') else None, on_cex=cex)
        # ---------------- exit: leave_all + demonitor_all
        for x in ('a', 'l'):
            for op in ('leave_all', 'demonitor_all'):
                I, w, body, outs = run_op(prog, S, members, listeners, world, 'pg::' + op, lambda I, st: [pw.actor_id(x)], statuses={'l': 2, 'a': 5})
                ctx.absorb(I)
                ctx.paths += len(outs)
                for k, o in enumerate(outs):
                    name = '%s.%s.%s.path%d' % (op, t, x, k)
                    cex = (lambda op=op, x=x, members=members, listeners=listeners, world=world: (lambda m: replay(op, None, (x,), members, listeners, world, S)))()
                    if o.kind != 'ret':
                        lp.record(ctx, name, o.st, {'no_panic': False}, 'C11.' + op, on_cex=cex)
                        continue
                    s = w.read(o.st)
                    claims = dict(pw.invariant(s))
                    claims['index_agrees_with_membership_whenever_the_group_entry_is_released'], n_rel = lock_invariant(o)
                    claims['reverse_index_agrees_with_membership_whenever_the_group_entry_is_released'] = lock_invariant_reverse(o)
                    if n_rel:
                        seen.add('entry_released')
                    notes = notifications(o)
                    if op == 'leave_all':
                        claims['exiting_actor_is_in_no_group'] = all(x not in m for m in s['members'].values())
                        claims['other_members_stay'] = all(sorted(y for y in members[k_] if y != x) == sorted(s['members'].get(k_, [])) for k_ in members)
                        was_in = [g for g in G if x in members[(S['D'], g)]]
                        want = sorted((r, g) for g in was_in for r in expected_recipients(S, listeners, world, g))
                        got = sorted((n[0], n[3]) for n in notes)
                        claims['one_leave_per_group_per_monitor'] = got == want and all(n[1] == 'Leave' and n[4] == (x,) and n[2] == S['D'] for n in notes)
                        if was_in:
                            seen.add('exit_leaves_groups')
                    else:
                        claims['exiting_actor_monitors_nothing'] = all(x not in l_ for l_ in list(s['listeners'].values()) + list(s['world'].values()))
                        claims['demonitor_all_notifies_nobody'] = not notes
                        claims['memberships_untouched'] = {k_: sorted(v) for k_, v in members.items() if v} == {k_: sorted(v) for k_, v in s['members'].items() if v}
                        if x == 'l' and (listeners or world):
                            seen.add('exit_drops_monitors')
                    lp.record(ctx, name, o.st, claims, 'C11.' + op, on_cex=cex)
        # after both, the actor has no reverse-index entry left
        # (the order of ActorCell::set_status: demonitor_all, then leave_all)
        I, w, body, outs = run_op(prog, S, members, listeners, world, 'pg::demonitor_all', lambda I, st: [pw.actor_id('l')], statuses={'l': 5})
        for o in outs:
            if o.kind != 'ret':
                continue
            b2 = prog.find_fn('pg::leave_all')
            for k, o2 in enumerate(I.run_body(o.st, b2, [pw.actor_id('l')])):
                name = 'exit_sequence.%s.path%d' % (t, k)
                s = w.read(o2.st)
                c2 = dict(pw.invariant(s))
                c2['exited_actor_has_no_reverse_index_entry'] = 'l' not in s['relations']
                lp.record(ctx, name, o2.st, c2, 'C11.exit', on_cex=lambda m: replay('exit', None, ('l',), members, listeners, world, S))
        ctx.absorb(I)
        # ---------------- monitor / monitor_scope / demonitor / demonitor_scope by actor m (not yet monitoring) and l
        for op, mk in (('monitor', lambda a: (lambda I, st: [Str('g1'), pw.actor(a)])), ('monitor_scope', lambda a: (lambda I, st: [Str(S['D']), pw.actor(a)])),
                       ('demonitor', lambda a: (lambda I, st: [Str('g1'), pw.actor_id(a)])), ('demonitor_scope', lambda a: (lambda I, st: [Str(S['D']), pw.actor_id(a)]))):
            for a in ('l', 'b'):
                I, w, body, outs = run_op(prog, S, members, listeners, world, 'pg::' + op, mk(a), statuses=None)
                ctx.absorb(I)
                ctx.paths += len(outs)
                for k, o in enumerate(outs):
                    name = '%s.%s.%s.path%d' % (op, t, a, k)
                    cex = (lambda op=op, a=a, members=members, listeners=listeners, world=world: (lambda m: replay(op, 'g1', (a,), members, listeners, world, S)))()
                    if o.kind != 'ret':
                        lp.record(ctx, name, o.st, {'no_panic': False}, 'C11.' + op, on_cex=cex)
                        continue
                    s = w.read(o.st)
                    claims = dict(pw.invariant(s))
                    claims['monitoring_changes_no_membership_and_notifies_nobody'] = {k_: sorted(v) for k_, v in members.items() if v} == {k_: sorted(v) for k_, v in s['members'].items() if v} and not notifications(o)
                    kkey = (S['D'], 'g1') if op in ('monitor', 'demonitor') else (S['D'], S['AG'])
                    pool = s['listeners'] if op in ('monitor', 'demonitor') else s['world']
                    before_pool = listeners if op in ('monitor', 'demonitor') else world
                    now = a in pool.get(kkey, [])
                    was = a in before_pool.get(kkey, [])
                    if op.startswith('monitor'):
                        ctx.prove(name + '.monitor_registered_iff_not_stopping', o.st.pc, z3.BoolVal(now) == z3.Or(z3.BoolVal(was), z3.ULE(w.status[a].t, 4)), group='C11.monitor.registered_iff_not_stopping', key='C11.monitor', on_cex=cex)
                        seen.add('monitor')
                        if now and not was:
                            # same discipline as for joiners; no native race for this one: a counterexample ends inconclusive (exit 2), never as a VIOLATION
                            ctx.prove(name + '.monitor_admitted_on_a_status_look_taken_under_its_relations_lock', o.st.pc, z3.BoolVal(looked_under_lock(o.st.trace, a, w.mutex_of(o.st).get(a))),
                                      group='C11.monitor.admitted_on_a_status_look_taken_under_the_relations_lock', key='C11.monitor.admitted_on_a_status_look_taken_under_the_relations_lock', on_cex=None)
                    else:
                        claims['demonitor_removes_the_monitor'] = not now
                        claims['other_monitors_stay'] = [x for x in before_pool.get(kkey, []) if x != a] == [x for x in pool.get(kkey, []) if x != a]
                        seen.add('demonitor')
                    lp.record(ctx, name, o.st, claims, 'C11.' + op, on_cex=cex)
    for w_ in ('join_effective', 'join_notified', 'leave_effective', 'exit_leaves_groups', 'exit_drops_monitors', 'monitor', 'demonitor', 'entry_released', 'join_lock_look'):
        ctx.note_witness('C11.' + w_, w_ in seen)


def check_queries(ctx, prog, S):
    def vec_idents(v):
        return sorted(x.fields[0].ident for x in v.fields)

    def strs(v):
        return sorted(x.s for x in v.fields)
    n = 0
    for (members, listeners, world) in states(S):
        t = tag(members, listeners, world, S)
        truth = {g: sorted(members[(S['D'], g)]) for g in G}
        nonempty = [g for g in G if truth[g]]
        queries = [('get_scoped_members', lambda I, st, g='g1': [Ref(st.alloc(Str(S['D'])), ()), Ref(st.alloc(Str(g)), ())], lambda v: vec_idents(v) == truth['g1']),
                   ('get_scoped_local_members', lambda I, st, g='g2': [Ref(st.alloc(Str(S['D'])), ()), Ref(st.alloc(Str(g)), ())], lambda v: vec_idents(v) == truth['g2']),
                   ('which_groups', lambda I, st: [], lambda v: strs(v) == sorted(nonempty)),
                   ('which_scoped_groups', lambda I, st: [Ref(st.alloc(Str(S['D'])), ())], lambda v: strs(v) == sorted(nonempty)),
                   ('which_scopes', lambda I, st: [], lambda v: strs(v) == ([S['D']] if nonempty else [])),
                   ('which_scopes_and_groups', lambda I, st: [], lambda v: sorted((x.fields[0].s, x.fields[1].s) for x in v.fields) == sorted((S['D'], g) for g in nonempty))]
        for fn, mk, okf in queries:
            I, w, body, outs = run_op(prog, S, members, listeners, world, 'pg::' + fn, mk, statuses={'a': 2, 'b': 2, 'l': 2})
            ctx.absorb(I)
            if n < 6:
                ctx.encoded(prog, body)
                n += 1
            ctx.paths += len(outs)
            for k, o in enumerate(outs):
                name = 'query.%s.%s.path%d' % (fn, t, k)
                good = o.kind == 'ret' and isinstance(o.val, Agg) and okf(o.val)
                lp.record(ctx, name, o.st, {'query_agrees_with_membership': good, 'query_changes_nothing': True}, 'C11.query',
                          on_cex=lambda m, fn=fn, members=members, listeners=listeners, world=world: replay(fn, 'g1', (), members, listeners, world, S))
    ctx.note_witness('C11.queries.explored', True)


_replayed = {}


def replay(op, g, who, members, listeners, world, S):
    import C11_replay
    import json
    k = json.dumps([op, g, list(who), sorted((list(k_), v) for k_, v in members.items()), sorted((list(k_), v) for k_, v in listeners.items()), sorted((list(k_), v) for k_, v in world.items())])
    if k not in _replayed:
        _replayed[k] = C11_replay.replay(op, g, who, members, listeners, world, S)
    return _replayed[k]


def replay_join_exit():
    import C11_replay
    if 'join_exit' not in _replayed:
        _replayed['join_exit'] = C11_replay.race_join_exit()
    return _replayed['join_exit']


def replay_last_leave():
    import C11_replay
    if 'last_leave' not in _replayed:
        _replayed['last_leave'] = C11_replay.race_last_leave()
    return _replayed['last_leave']


def run(ctx):
    prog, info = pw.load()
    c = pw.consts(prog)
    S = {'D': c['DEFAULT_SCOPE'], 'AG': c['ALL_GROUPS_NOTIFICATION'], 'AS': c['ALL_SCOPES_NOTIFICATION']}
    for fn in ('join_scoped', 'leave_scoped', 'leave_all', 'demonitor_all', 'monitor', 'monitor_scope', 'demonitor', 'demonitor_scope', 'notify_world_listeners', 'remove_empty_actor_relations',
               'add_group_to_index', 'remove_group_from_index'):
        b = prog.find_fn('pg::' + fn)
        if b is None:
            raise Inconclusive('pg::%s not found' % fn)
        ctx.encoded(prog, b)
    ctx.bounds.update({'states': 'two groups in the default scope with members among {a, b}; one monitor l registered for group g1, for the scope, for all scopes, or not at all: 192 states satisfying the representation invariant',
                       'operations': 'one call per run: join_scoped / leave_scoped with one or two (also duplicate) actors, leave_all, demonitor_all, monitor, monitor_scope, demonitor, demonitor_scope, six queries; statuses symbolic',
                       'histories': 'sequential histories of any length by induction over the invariant',
                       'outside': 'linearizability under concurrent calls and exits (DashMap shard locks, relations mutexes, the status re-check racing with set_status): not executed; several scopes at once; '
                                  'remote-id members'})
    ctx.assumptions += ['DashMap behaves as a map whose entry / get / iter see a consistent snapshot (single thread); Arc<Mutex<ActorRelations>> as a uniquely owned cell',
                        'ActorCell::get_status returns the same (arbitrary) status for the whole call; send_supervisor_evt is recorded']
    check_mutations(ctx, prog, S)
    check_queries(ctx, prog, S)


def replay_file(path):
    import json
    import C11_replay
    d = json.load(open(path))
    r = C11_replay.replay_json(d['replay'])
    print(r['detail'])
    return 1 if r['replayed'] else 0
