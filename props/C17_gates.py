"""C17, session level (node_session.rs): the gates in front of node / control messages, the allow-list in front of casts and calls,
and `handle_auth` storing exactly the machine's verdict."""
import re
import z3

import cluster as cl
import lifecycle as lc
import models_std
import models_async
import lifeprops as lp
import C17 as fsm
from exec import State, Outcome, Inconclusive, Unmodelled, val_key
from values import *


def session_interp(prog, effects=True):
    I = cl.new_interp(prog)
    models_async.install(I, 1)

    def ov(rx, fn):
        I.override.append((re.compile(rx), fn))

    def tcp_send(I, st, f, args, fr):
        st.emit('SEND_AUTH', args[1])
        return I.ret(st, UNIT)
    ov(r'NodeSessionState::tcp_send_auth$', tcp_send)

    @I.model(r'^<(std::string::)?String as Deref>::deref$|^<(\w+::)*ActorRef<.*> as Deref>::deref$', 'Deref of String / ActorRef: same place')
    def m_deref(I, st, f, args, fr):
        return I.ret(st, args[0])

    @I.model(r'(^|::)ActorRef::<.*>::cast$|(^|::)<impl (\w+::)*ActorRef<.*>>::cast$', 'ActorRef::cast: recorded')
    def m_cast(I, st, f, args, fr):
        st.emit('CAST', models_std.deref_val(I, st, args[0]), args[1])
        return I.ret(st, models_std.ok(UNIT))

    @I.model(r'(^|::)ActorRef::<.*>::call::<|(^|::)<impl (\w+::)*ActorRef<.*>>::call::<', 'ActorRef::call: a future with any result (one Pending poll allowed)')
    def m_call(I, st, f, args, fr):
        st.emit('CALL', models_std.deref_val(I, st, args[0]))
        return I.ret(st, Opaque('callfut', info={'n': fresh_id()}))

    @I.model(r'(^|::)ActorRef::<.*>::stop$|(^|::)ActorCell::stop$', 'ActorCell::stop: recorded')
    def m_stop(I, st, f, args, fr):
        st.emit('STOP', models_std.deref_val(I, st, args[0]))
        return I.ret(st, UNIT)

    @I.model(r'(^|::)ActorRef::<.*>::get_id$|(^|::)ActorCell::get_id$', 'get_id')
    def m_id(I, st, f, args, fr):
        return I.ret(st, Opaque('ActorId', ident=('id-of', getattr(models_std.deref_val(I, st, args[0]), 'ident', None))))

    @I.model(r'(^|::)where_is_pid$', 'registry::where_is_pid: nothing, or some cell')
    def m_where(I, st, f, args, fr):
        s2 = st.fork()
        s2.emit('LOOKUP', 'none')
        st.emit('LOOKUP', 'some')
        st.ghost['lookup_arg'] = args[0]
        return [Outcome(s2, 'ret', models_std.NONE), Outcome(st, 'ret', models_std.some(Opaque('ActorCell', ident='looked-up')))]

    @I.model(r'ActorCell::supports_remoting$', 'ActorCell::supports_remoting: any bool')
    def m_sr(I, st, f, args, fr):
        b = z3.Bool('supports_remoting!%d' % fresh_id())
        st.ghost['supports'] = b
        return I.ret(st, b)

    @I.model(r'ActorCell::send_serialized$', 'ActorCell::send_serialized = delivery to a local actor')
    def m_ss(I, st, f, args, fr):
        st.emit('DELIVER', models_std.deref_val(I, st, args[0]), args[1])
        return I.ret(st, models_std.ok(UNIT))

    @I.model(r'(^|::)concurrency::oneshot(::<.*>)?$|^oneshot::<.*>$', 'ractor::concurrency::oneshot: a fresh channel')
    def m_os(I, st, f, args, fr):
        return I.ret(st, Agg('()', (Opaque('OneshotSender', ident='tx'), Opaque('OneshotReceiver', ident='rx'))))

    @I.model(r'(^|::)concurrency::spawn(::<.*>)?$|^spawn::<.*>$', 'ractor::concurrency::spawn: task recorded')
    def m_sp(I, st, f, args, fr):
        st.emit('SPAWN', f)
        return I.ret(st, Opaque('JoinHandle'))

    @I.model(r' as Into<(\w+::)*RpcReplyPort<.*>>>::into$', 'RpcReplyPort::from(sender [, timeout])')
    def m_into_port(I, st, f, args, fr):
        return I.ret(st, Opaque('RpcReplyPort', ident='reply-port'))

    prev = I.hooks.get('poll_other')

    def poll_other(I, st, v, cell, path, cx, fr):
        if not (isinstance(v, Opaque) and v.tag == 'callfut'):
            return prev(I, st, v, cell, path, cx, fr) if prev else None
        key = ('callfut', v.info['n'])
        outs = []
        if not st.ghost.get(key):
            s0 = st.fork()
            s0.ghost[key] = 1
            outs.append(Outcome(s0, 'ret', models_std.PENDING))
        vals = [('err', models_std.err(Opaque('MessagingErr'))), ('timeout', models_std.ok(cl.variant(prog, 'CallResult', 'Timeout'))),
                ('sender_error', models_std.ok(cl.variant(prog, 'CallResult', 'SenderError')))]
        for (vn, d, k, fl) in cl.variants(prog, 'SessionCheckReply'):
            vals.append((vn, models_std.ok(cl.variant(prog, 'CallResult', 'Success', (cl.variant(prog, 'SessionCheckReply', vn),)))))
        for i, (lab, val) in enumerate(vals):
            s2 = st.fork() if i < len(vals) - 1 else st
            s2.emit('CALLRESULT', lab)
            outs.append(Outcome(s2, 'ret', models_std.ready(val)))
        return outs
    I.hooks['poll_other'] = poll_other
    if effects:
        cl.install_effects(I)
    return I


def drive(I, st, cc, max_polls=4):
    frontier = [(st, 0)]
    done = []
    while frontier:
        s, n = frontier.pop()
        for o in lc.poll_coro(I, s, cc):
            if o.kind != 'ret':
                done.append((o.st, o.kind, o.val))
            elif o.val.variant == 'Ready':
                done.append((o.st, 'ready', o.val.fields[0]))
            elif n + 1 < max_polls:
                frontier.append((o.st, n + 1))
            else:
                done.append((o.st, 'budget', None))
    return done


def session_state(prog, I, st, auth, **kw):
    f = dict(auth=auth, tcp=models_std.some(Opaque('ActorRef', ident='tcp')), name=models_std.NONE, connection_id=I.fresh_int('cid', 'u64', st),
             remote_actors=Agg('HashMap', ()), advertised_local_pids=Agg('HashSet', ()), ready=cl.variant(prog, 'ReadyState', 'Open'))
    f.update(kw)
    return cl.record(prog, 'NodeSessionState', **f)


def session_self(prog, st):
    return st.alloc(cl.record(prog, 'NodeSession', cookie=Str('the-cookie'), node_server=Opaque('ActorRef', ident='node-server'),
                              this_node_name=cl.record(prog, 'NameMessage', 'out/auth.rs')))


def is_variant(I, prog, v, enum_name, vname):
    """z3 bool: value v (Enum or SymEnum) is the given variant"""
    if isinstance(v, Enum):
        return z3.BoolVal(v.variant == vname)
    if isinstance(v, SymEnum):
        idx = [x[1] for x in cl.variants(prog, enum_name) if x[0] == vname][0]
        return v.discr.t == I.mk_int(idx, v.discr.ty).t
    raise Inconclusive('not an enum value: %r' % (v,))


def node_messages(prog, I, st, to):
    out = [('None', models_std.NONE)]
    for (v, idx, kind, fl) in cl.variants(prog, 'Msg', 'out/node.rs'):
        if v == 'Cast':
            pls = [('', cl.record(prog, 'Cast', 'out/node.rs', to=to))]
        elif v == 'Call':
            pls = [('/timeout', cl.record(prog, 'Call', 'out/node.rs', to=to, tag=I.fresh_int('tag', 'u64', st), timeout_ms=models_std.some(I.fresh_int('tmo', 'u64', st)))),
                   ('/no-timeout', cl.record(prog, 'Call', 'out/node.rs', to=to, tag=I.fresh_int('tag', 'u64', st), timeout_ms=models_std.NONE))]
        elif v == 'Reply':
            pls = [('', cl.record(prog, 'CallReply', 'out/node.rs', to=to, tag=I.fresh_int('tag', 'u64', st)))]
        else:
            raise Inconclusive('node_message::Msg has an unknown variant %s: extend the check' % v)
        for suffix, pl in pls:
            out.append((v + suffix, models_std.some(Enum('Msg', v, idx, (pl,)))))
    return out


# ------------------------------------------------------------------ handle_node
def check_handle_node(ctx, prog):
    body = prog.find_fn('NodeSession::handle_node')
    ala = prog.find_fn('NodeSessionState::authorized_local_actor')
    if body is None or ala is None:
        raise Inconclusive('handle_node / authorized_local_actor not found')
    ctx.encoded(prog, body)
    ctx.encoded(prog, ala)
    I = session_interp(prog)
    st0 = State()
    delivered = 0
    for lab, av, okk, close in fsm.auth_states(prog, I, st0):
        adv = I.fresh_int('advertised', 'u64', st0)
        to = I.fresh_int('to', 'u64', st0)
        for mname, mv in node_messages(prog, I, st0, to):
            st = st0.fork()
            pre = session_state(prog, I, st, av, advertised_local_pids=Agg('HashSet', (adv,)))
            sc = st.alloc(pre)
            selfc = session_self(prog, st)
            msg = cl.record(prog, 'NodeMessage', 'out/node.rs', msg=mv)
            n0 = len(st.trace)
            outs = I.run_body(st, body, [Ref(selfc, ()), Ref(sc, (), True), msg, Opaque('ActorRef', ident='myself')])
            ctx.paths += len(outs)
            for k, o in enumerate(outs):
                name = 'handle_node.%s.%s.path%d' % (lab, mname, k)
                ev = [e for e in o.st.trace[n0:] if e[0] != 'DROP']
                post = I.read(o.st, sc, ())
                cex = (lambda lab=lab, mname=mname: (lambda m: fsm.replay_gate('node', {'auth': lab, 'msg': mname, 'advertised': True, 'remotable': True})))()
                if not okk:
                    claims = {'unauthenticated_node_message_has_no_effect': o.kind == 'ret' and not ev,
                              'unauthenticated_node_message_leaves_state_unchanged': val_key(post) == val_key(pre)}
                    lp.record(ctx, name, o.st, claims, 'C17.gate.node', sample={'auth': lab, 'message': mname, 'events': [e[0] for e in ev]}, on_cex=cex)
                    continue
                # authenticated: deliveries only to the actor found for an advertised pid that supports remoting
                dl = [e for e in ev if e[0] == 'DELIVER']
                eff = [e for e in ev if e[0] in ('EFFECT', 'SPAWN')]
                if o.kind not in ('ret', 'effect'):
                    lp.record(ctx, name, o.st, {'handler_returns': False}, 'C17.gate.node', on_cex=cex)
                    continue
                if mname.startswith('Cast') or mname.startswith('Call'):
                    for e in dl:
                        delivered += 1
                        sup = o.st.ghost.get('supports')
                        la = o.st.ghost.get('lookup_arg')
                        good = z3.BoolVal(False)
                        if isinstance(e[1], Opaque) and e[1].ident == 'looked-up' and sup is not None and isinstance(la, (Enum, Agg)) and getattr(la, 'variant', getattr(la, 'ty', None)) == 'Local' and len(la.fields) == 1:
                            good = z3.And(to.t == adv.t, sup, la.fields[0].t == to.t)
                        cexa = (lambda lab=lab, mname=mname: (lambda m: fsm.replay_gate('node', {'auth': lab, 'msg': mname, 'advertised': False, 'remotable': True})))()
                        ctx.prove(name + '.delivery_only_to_advertised_remotable_actor', o.st.pc, good, group='C17.allowlist.delivery_only_to_advertised_remotable_actor',
                                  key='C17.allowlist', sample={'auth': lab, 'message': mname, 'claim': 'DELIVER => to in advertised_local_pids and supports_remoting(where_is_pid(Local(to)))'}, on_cex=cexa)
                    if eff:
                        sup = o.st.ghost.get('supports')
                        good = z3.And(to.t == adv.t, sup) if sup is not None else z3.BoolVal(False)
                        ctx.prove(name + '.reply_task_only_after_authorisation', o.st.pc, good, group='C17.allowlist.reply_task_only_after_authorisation', key='C17.allowlist', on_cex=cex)
                    # a pid that is not remotable is dropped from the allow-list, an unadvertised pid never enters it
                    pa = cl.field(prog, post, 'NodeSessionState', 'advertised_local_pids')
                    ctx.prove(name + '.allow_list_never_grows', o.st.pc, z3.BoolVal(len(pa.fields) <= 1 and all(val_key(x) == val_key(adv) for x in pa.fields)),
                              group='C17.allowlist.allow_list_never_grows', key='C17.allowlist', on_cex=cex)
    ctx.absorb(I)
    ctx.note_witness('C17.gate.node.authenticated_cast_or_call_is_delivered', delivered >= 3)


# ------------------------------------------------------------------ handle_control
def check_handle_control(ctx, prog):
    fn = 'NodeSession::handle_control'
    body = prog.find_fn(fn)
    if body is None:
        raise Inconclusive('handle_control not found')
    ctx.encoded(prog, body)
    rb = prog.find_fn(fn + '::{closure#0}')
    if rb is not None:
        ctx.encoded(prog, rb)
    I = session_interp(prog)
    st0 = State()
    reached = 0
    msgs = [('None', models_std.NONE)]
    for (v, idx, kind, fl) in cl.variants(prog, 'Msg', 'out/control.rs'):
        msgs.append((v, models_std.some(Enum('Msg', v, idx, (Opaque('control::' + v, ident='control-payload'),)))))
    for lab, av, okk, close in fsm.auth_states(prog, I, st0):
        for mname, mv in msgs:
            st = st0.fork()
            pre = session_state(prog, I, st, av)
            sc = st.alloc(pre)
            selfc = session_self(prog, st)
            msg = cl.record(prog, 'ControlMessage', 'out/control.rs', msg=mv)
            n0 = len(st.trace)
            name = 'handle_control.%s.%s' % (lab, mname)
            cex = (lambda lab=lab, mname=mname: (lambda m: fsm.replay_gate('control', {'auth': lab, 'msg': mname})))()
            try:
                st, coro = lc.make_coro(I, st, prog, fn, [Ref(selfc, ()), Ref(sc, (), True), msg, Opaque('ActorRef', ident='myself')])
                cc = st.alloc(coro)
                outs = lc.poll_coro(I, st, cc)
            except Unmodelled as e:
                if okk:
                    reached += 1     # authenticated sessions go on into the handlers (not explored here)
                    continue
                # an unauthenticated session inspected the payload or called into something unknown before / instead of the gate
                lp.record(ctx, name, st, {'unauthenticated_control_message_has_no_effect': False}, 'C17.gate.control', sample={'auth': lab, 'message': mname, 'reached': str(e)[:160]}, on_cex=cex)
                continue
            ctx.paths += len(outs)
            for k, o in enumerate(outs):
                ev = [e for e in o.st.trace[n0:] if e[0] not in ('DROP', 'CORO_DROP')]
                post = I.read(o.st, sc, ())
                if okk:
                    if ev or o.kind != 'ret' or val_key(post) != val_key(pre):
                        reached += 1
                    continue
                done = o.kind == 'ret' and isinstance(o.val, Enum) and o.val.variant == 'Ready' and isinstance(o.val.fields[0], Enum) and o.val.fields[0].variant == 'Ok'
                claims = {'unauthenticated_control_message_has_no_effect': done and not ev,
                          'unauthenticated_control_message_leaves_state_unchanged': val_key(post) == val_key(pre)}
                lp.record(ctx, '%s.path%d' % (name, k), o.st, claims, 'C17.gate.control', sample={'auth': lab, 'message': mname, 'events': [str(e[:2]) for e in ev]}, on_cex=cex)
    ctx.absorb(I)
    ctx.note_witness('C17.gate.control.authenticated_session_processes_control_messages', reached > 0)


# ------------------------------------------------------------------ handle_auth
def check_handle_auth(ctx, prog):
    fn = 'NodeSession::handle_auth'
    body = prog.find_fn(fn)
    if body is None:
        raise Inconclusive('handle_auth not found')
    ctx.encoded(prog, body)
    rb = prog.find_fn(fn + '::{closure#0}')
    if rb is not None:
        ctx.encoded(prog, rb)
    I = session_interp(prog)
    st0 = State()
    became_ok = set()
    allowed_ev = ('SEND_AUTH', 'CAST', 'CALL', 'CALLRESULT', 'STOP', 'CB')
    for lab, av, okk, close in fsm.auth_states(prog, I, st0):
        role = 'AsServer' if lab.startswith('AsServer') else 'AsClient'
        enum = fsm.SERVER if role == 'AsServer' else fsm.CLIENT
        sv = lab[len(role) + 1:-1]
        for mname, mvar, mv in fsm.auth_messages(prog, I, st0):
            st = st0.fork()
            pre = session_state(prog, I, st, av)
            sc = st.alloc(pre)
            selfc = session_self(prog, st)
            msg = cl.record(prog, 'AuthenticationMessage', 'out/auth.rs', msg=mv)
            n0 = len(st.trace)
            st, coro = lc.make_coro(I, st, prog, fn, [Ref(selfc, ()), Ref(sc, (), True), msg, Opaque('ActorRef', ident='myself')])
            cc = st.alloc(coro)
            done = drive(I, st, cc)
            ctx.paths += len(done)
            for k, (s, kind, v) in enumerate(done):
                name = 'handle_auth.%s.%s.path%d' % (lab, mname, k)
                cex = (lambda lab=lab, mname=mname: (lambda m: fsm.replay_auth(lab, mname, m)))()
                ev = [e for e in s.trace[n0:] if e[0] not in ('DROP', 'CORO_DROP')]
                if kind != 'ready':
                    lp.record(ctx, name, s, {'handle_auth_completes_without_other_effects': False}, 'C17.auth', sample={'auth': lab, 'message': mname, 'ended': kind, 'value': str(v)[:120]}, on_cex=cex)
                    continue
                post = I.read(s, sc, ())
                pa = cl.field(prog, post, 'NodeSessionState', 'auth')
                same_role = isinstance(pa, Enum) and pa.variant == role
                pm = pa.fields[0] if same_role else None
                claims = {'role_is_kept': same_role, 'only_handshake_effects_before_authentication': all(e[0] in allowed_ev for e in ev)}
                lp.record(ctx, name, s, claims, 'C17.auth', on_cex=cex)
                if not same_role:
                    continue
                p_ok = is_variant(I, prog, pm, enum, 'Ok')
                p_close = is_variant(I, prog, pm, enum, 'Close')
                # 1. authenticated afterwards only if it was before, or the digest comparison of the challenge state succeeded
                if okk:
                    why = z3.BoolVal(True)
                elif role == 'AsServer' and sv == 'WaitingOnClientChallengeReply' and mvar == 'ClientChallenge':
                    why = fsm.bytes_eq(av.fields[0].fields[1], cl.field(prog, mv.fields[0].fields[0], 'ChallengeReply', 'digest', 'out/auth.rs'))
                elif role == 'AsClient' and sv == 'WaitingForServerChallengeAck' and mvar == 'ServerAck':
                    why = fsm.bytes_eq(av.fields[0].fields[3], cl.field(prog, mv.fields[0].fields[0], 'ChallengeAck', 'digest', 'out/auth.rs'))
                else:
                    why = z3.BoolVal(False)
                ctx.prove(name + '.authenticated_only_by_matching_digest', s.pc, z3.Implies(p_ok, why), group='C17.auth.authenticated_only_by_matching_digest', key='C17.auth.authenticated_only_by_matching_digest',
                          sample={'auth': lab, 'message': mname, 'claim': 'state.auth is Ok afterwards => it was Ok before, or expected digest == received digest'}, on_cex=cex)
                r, _m = ctx.solve(list(s.pc) + [p_ok])
                if r == 'sat' and not okk:
                    became_ok.add(role)
                # 2. a closed session stays closed and is stopped; a session that closes now is stopped
                if close:
                    ctx.prove(name + '.closed_stays_closed', s.pc, p_close, group='C17.auth.closed_stays_closed', key='C17.auth.closed_stays_closed', on_cex=cex)
                stopped = any(e[0] == 'STOP' and isinstance(e[1], Opaque) and e[1].ident == 'myself' for e in ev)
                ctx.prove(name + '.closing_stops_the_session', s.pc, z3.Implies(p_close, z3.BoolVal(stopped)), group='C17.auth.closing_stops_the_session', key='C17.auth.closing_stops_the_session', on_cex=cex)
                # 3. an expected digest stored by this step is the digest of the challenge drawn in this step (never attacker-chosen)
                if role == 'AsServer' and isinstance(pm, Enum) and pm.variant == 'WaitingOnClientChallengeReply' and not (sv == 'WaitingOnClientChallengeReply'):
                    r_ = s.ghost.get('rand', [])
                    good = z3.And(pm.fields[0].t == r_[-1].t, fsm.bytes_eq(pm.fields[1], cl.digest_of(r_[-1].t))) if r_ else z3.BoolVal(False)
                    ctx.prove(name + '.expected_digest_is_of_fresh_challenge', s.pc, good, group='C17.auth.expected_digest_is_of_fresh_challenge', key='C17.auth.expected_digest_is_of_fresh_challenge', on_cex=cex)
    ctx.absorb(I)
    ctx.note_witness('C17.auth.server_session_can_authenticate', 'AsServer' in became_ok)
    ctx.note_witness('C17.auth.client_session_can_authenticate', 'AsClient' in became_ok)


# ------------------------------------------------------------------ the actor's handle(): dispatch of inbound frames
def check_dispatch(ctx, prog):
    """<NodeSession as Actor>::handle on MessageReceived(frame): the node server is told ConnectionAuthenticated only by a step that made the session
    authenticated through the digest comparison; node / control frames on an unauthenticated session do nothing, also through the dispatcher"""
    fn = '<NodeSession as Actor>::handle'
    body = prog.find_fn(fn)
    if body is None:
        raise Inconclusive('NodeSession::handle not found')
    ctx.encoded(prog, body)
    I = session_interp(prog, effects=False)
    st0 = State()
    told = 0
    for lab, av, okk, close in fsm.auth_states(prog, I, st0):
        role = 'AsServer' if lab.startswith('AsServer') else 'AsClient'
        sv = lab[len(role) + 1:-1]
        frames = [('auth:' + mname, mvar, mv, cl.variant(prog, 'Message', 'Auth', (cl.record(prog, 'AuthenticationMessage', 'out/auth.rs', msg=mv),), 'out/meta.rs'))
                  for mname, mvar, mv in fsm.auth_messages(prog, I, st0)]
        if not okk:
            to = I.fresh_int('to', 'u64', st0)
            for mname, mv in node_messages(prog, I, st0, to):
                frames.append(('node:' + mname, None, mv, cl.variant(prog, 'Message', 'Node', (cl.record(prog, 'NodeMessage', 'out/node.rs', msg=mv),), 'out/meta.rs')))
            for (v, idx, kind, fl) in cl.variants(prog, 'Msg', 'out/control.rs'):
                cm = cl.record(prog, 'ControlMessage', 'out/control.rs', msg=models_std.some(Enum('Msg', v, idx, (Opaque('control::' + v, ident='control-payload'),))))
                frames.append(('control:' + v, None, None, cl.variant(prog, 'Message', 'Control', (cm,), 'out/meta.rs')))
        for fname, mvar, mv, frame in frames:
            st = st0.fork()
            pre = session_state(prog, I, st, av)
            sc = st.alloc(pre)
            selfc = session_self(prog, st)
            nm = cl.record(prog, 'NetworkMessage', 'out/meta.rs', message=models_std.some(frame))
            msg = cl.variant(prog, 'NodeSessionMessage', 'MessageReceived', (nm,))
            n0 = len(st.trace)
            name = 'dispatch.%s.%s' % (lab, fname)
            cex = (lambda lab=lab, fname=fname: (lambda m: fsm.replay_dispatch(lab, fname[5:], m) if fname.startswith('auth:') else fsm.replay_gate('node' if fname.startswith('node:') else 'control', {'auth': lab, 'msg': fname.split(':', 1)[1]})))()
            try:
                st, coro = lc.make_coro(I, st, prog, fn, [Ref(selfc, ()), Opaque('ActorRef', ident='myself'), msg, Ref(sc, (), True)])
                cc = st.alloc(coro)
                done = drive(I, st, cc, 6)
            except Unmodelled as e:
                if fname.startswith('auth:'):
                    raise
                lp.record(ctx, name, st, {'unauthenticated_frame_has_no_effect': False}, 'C17.dispatch', sample={'auth': lab, 'frame': fname, 'reached': str(e)[:160]}, on_cex=cex)
                continue
            ctx.paths += len(done)
            for k, (s, kind, v) in enumerate(done):
                ev = [e for e in s.trace[n0:] if e[0] not in ('DROP', 'CORO_DROP')]
                casts = [e[2].variant if isinstance(e[2], Enum) else None for e in ev if e[0] == 'CAST']
                post = I.read(s, sc, ())
                pa = cl.field(prog, post, 'NodeSessionState', 'auth')
                pname = '%s.path%d' % (name, k)
                if not fname.startswith('auth:'):
                    claims = {'unauthenticated_frame_has_no_effect': kind == 'ready' and not ev, 'unauthenticated_frame_leaves_state_unchanged': val_key(post) == val_key(pre)}
                    lp.record(ctx, pname, s, claims, 'C17.dispatch', on_cex=cex)
                    continue
                n_auth = casts.count('ConnectionAuthenticated')
                claims = {'authenticated_announced_at_most_once': n_auth <= 1, 'ready_announced_only_with_authentication': ('ConnectionReady' not in casts) or n_auth == 1 or okk}
                if n_auth:
                    told += 1
                    enum = fsm.SERVER if role == 'AsServer' else fsm.CLIENT
                    pm = pa.fields[0]
                    if okk:
                        why = z3.BoolVal(False)       # an already authenticated session must not announce itself again
                    elif role == 'AsServer' and sv == 'WaitingOnClientChallengeReply' and mvar == 'ClientChallenge':
                        why = fsm.bytes_eq(av.fields[0].fields[1], cl.field(prog, mv.fields[0].fields[0], 'ChallengeReply', 'digest', 'out/auth.rs'))
                    elif role == 'AsClient' and sv == 'WaitingForServerChallengeAck' and mvar == 'ServerAck':
                        why = fsm.bytes_eq(av.fields[0].fields[3], cl.field(prog, mv.fields[0].fields[0], 'ChallengeAck', 'digest', 'out/auth.rs'))
                    else:
                        why = z3.BoolVal(False)
                    ctx.prove(pname + '.announced_only_after_the_digest_matched', s.pc, z3.And(why, is_variant(I, prog, pm, enum, 'Ok')), group='C17.dispatch.announced_only_after_the_digest_matched',
                              key='C17.dispatch.announced_only_after_the_digest_matched', on_cex=cex)
                lp.record(ctx, pname, s, claims, 'C17.dispatch', on_cex=cex)
    ctx.absorb(I)
    ctx.note_witness('C17.dispatch.a_session_announces_its_authentication', told > 0)


# ------------------------------------------------------------------ the node server: who is listed, who is recorded as authenticated
def check_node_server(ctx, prog):
    """<NodeServer as Actor>::handle: GetSessions lists exactly the sessions recorded as authenticated; only ConnectionAuthenticated(id) records a session
    as authenticated, and only a session the server knows with a peer name (the session sends it only after the digest check, see dispatch)"""
    fn = '<NodeServer as Actor>::handle'
    body = prog.find_fn(fn)
    if body is None:
        raise Inconclusive('NodeServer::handle not found')
    ctx.encoded(prog, body)
    sd = prog.crate.struct('NodeServerState')
    if not sd or not {'node_sessions', 'authenticated_sessions', 'subscriptions', 'connection_ids'} <= set(sd['fields']):
        raise Inconclusive('NodeServerState fields changed')
    listed_some = False
    added = 0

    def mk(I, st, auth, named):
        aid = lambda n: Enum('ActorId', 'Local', 0, (I.mk_int(n, 'u64'),))
        nm = lambda n: models_std.some(cl.record(prog, 'NameMessage', 'out/auth.rs', name=Str('peer%d' % n), connection_id=I.mk_int(0, 'u64'), connection_string=Str('peer%d:1' % n), flags=models_std.NONE))
        info = lambda n: cl.record(prog, 'NodeServerSessionInformation', actor=Opaque('ActorRef', ident='sess%d' % n), peer_name=nm(n) if n in named else models_std.NONE, is_server=z3.BoolVal(True),
                                   node_id=I.mk_int(100 + n, 'u64'), peer_addr=Str('addr%d' % n))
        state = cl.record(prog, 'NodeServerState', node_sessions=Agg('HashMap', [Agg('()', (aid(n), info(n))) for n in (1, 2)]), authenticated_sessions=Agg('HashSet', [aid(n) for n in auth]),
                          subscriptions=Agg('HashMap', ()), connection_ids=Agg('HashMap', ()), this_node_name=cl.record(prog, 'NameMessage', 'out/auth.rs', name=Str('this-node')))
        return st.alloc(state), aid

    def auth_ids(I, s, sc):
        post = I.read(s, sc, ())
        out = set()
        for x in cl.field(prog, post, 'NodeServerState', 'authenticated_sessions').fields:
            out.add(z3.simplify(x.fields[0].t).as_long())
        return out
    for auth in ((), (1,), (2,), (1, 2)):
        I = session_interp(prog, effects=False)

        @I.model(r'(^|::)RpcReplyPort::<.*>::send$', 'RpcReplyPort::send (recorded)')
        def m_ps(I, st, f, args, fr):
            st.emit('REPLY', args[1])
            return I.ret(st, models_std.ok(UNIT))
        # GetSessions
        st = State()
        sc, aid = mk(I, st, auth, (1, 2))
        msg = cl.variant(prog, 'NodeServerMessage', 'GetSessions', (Opaque('RpcReplyPort', ident='reply'),))
        st, coro = lc.make_coro(I, st, prog, fn, [Ref(st.alloc(Opaque('NodeServer')), ()), Opaque('ActorRef', ident='myself'), msg, Ref(sc, (), True)])
        cc = st.alloc(coro)
        for k, (s, kind, v) in enumerate(drive(I, st, cc, 3)):
            name = 'node_server.GetSessions.auth%s.path%d' % (''.join(map(str, auth)) or '-', k)
            reps = [e[1] for e in s.trace if e[0] == 'REPLY']
            listed = None
            if len(reps) == 1 and isinstance(reps[0], Agg):
                listed = sorted(z3.simplify(e.fields[0].t).as_long() - 100 for e in reps[0].fields)
                listed_some = listed_some or bool(listed)
            lp.record(ctx, name, s, {'lists_exactly_the_authenticated_sessions': kind == 'ready' and listed == sorted(auth), 'listing_changes_nothing': auth_ids(I, s, sc) == set(auth)}, 'C17.node_server',
                      sample={'authenticated': list(auth), 'listed': listed}, on_cex=lambda m: fsm.replay_sessions())
        # every other message that does not carry authentication: the authenticated set never grows
        for mname, mk_msg in (('ConnectionReady', lambda: cl.variant(prog, 'NodeServerMessage', 'ConnectionReady', (aid(1),))),
                              ('UpdateSession', lambda: cl.variant(prog, 'NodeServerMessage', 'UpdateSession', (aid(1), cl.record(prog, 'NameMessage', 'out/auth.rs', name=Str('peer1'), connection_id=I.mk_int(0, 'u64'),
                                                                                                                                 connection_string=Str('peer1:1'), flags=models_std.NONE)))),
                              ('CheckSession', lambda: cl.variant(prog, 'NodeServerMessage', 'CheckSession', (cl.record(prog, 'NameMessage', 'out/auth.rs', name=Str('peer1'), connection_id=I.mk_int(0, 'u64'),
                                                                                                                        connection_string=Str('peer1:1'), flags=models_std.NONE), Opaque('RpcReplyPort', ident='reply')))),
                              ('ConnectionAuthenticated', lambda: cl.variant(prog, 'NodeServerMessage', 'ConnectionAuthenticated', (aid(1),))),
                              ('ConnectionAuthenticated/unknown', lambda: cl.variant(prog, 'NodeServerMessage', 'ConnectionAuthenticated', (aid(7),)))):
            for named in ((1, 2), (2,)):
                st = State()
                sc, aid = mk(I, st, auth, named)
                name0 = 'node_server.%s.auth%s.named%s' % (mname, ''.join(map(str, auth)) or '-', ''.join(map(str, named)))
                try:
                    st, coro = lc.make_coro(I, st, prog, fn, [Ref(st.alloc(Opaque('NodeServer')), ()), Opaque('ActorRef', ident='myself'), mk_msg(), Ref(sc, (), True)])
                    cc = st.alloc(coro)
                    done = drive(I, st, cc, 4)
                except Unmodelled as e:
                    ctx.extra.setdefault('node_server_arms_not_executed', []).append('%s: %s' % (name0, str(e)[:120]))
                    continue
                ctx.paths += len(done)
                for k, (s, kind, v) in enumerate(done):
                    after = auth_ids(I, s, sc)
                    grown = after - set(auth)
                    claims = {'handler_completes': kind == 'ready'}
                    if mname == 'ConnectionAuthenticated':
                        claims['only_the_announcing_known_named_session_is_recorded'] = grown <= ({1} if 1 in named else set())
                        added += 1 if grown else 0
                    else:
                        claims['authenticated_set_does_not_grow'] = not grown
                    lp.record(ctx, '%s.path%d' % (name0, k), s, claims, 'C17.node_server', on_cex=lambda m: fsm.replay_sessions())
        ctx.absorb(I)
    ctx.note_witness('C17.node_server.some_session_listed', listed_some)
    ctx.note_witness('C17.node_server.authentication_recorded', added > 0)


def run(ctx, prog):
    ctx.bounds.update({
        'gates': 'handle_node (whole function) and handle_control (first poll) from every AuthenticationState (11 states, payloads symbolic) on every message variant; '
                 'advertised_local_pids = {a} with a symbolic, target pid symbolic; where_is_pid returns nothing or some cell; supports_remoting any bool',
        'handle_auth': 'whole coroutine from every AuthenticationState on every authentication message shape; NodeServer::CheckSession answers: error, timeout, sender error, each SessionCheckReply; '
                       'at most one Pending poll per call',
    })
    ctx.assumptions += ['every call that is not crate code, a listed model or allow-listed tracing ends the path as an "effect": before a gate there must be none',
                        'ActorRef::cast / call / stop / send_serialized are recorded as events (their behaviour is C02 / C07 / C09)']
    check_handle_node(ctx, prog)
    check_handle_control(ctx, prog)
    check_handle_auth(ctx, prog)
    check_dispatch(ctx, prog)
    check_node_server(ctx, prog)
