"""native replay for the C14 exclusivity slice: the real KeyPersistentRouting::route_message on a pool of real worker records"""
import native

K, OTHER = 5, 6


def run_native(pl, hint, router='KeyPersistentRouting'):
    ws = ';'.join('%d:%s:%s' % (w, '.'.join(map(str, q)), '.'.join(map(str, c))) for w, (q, c) in pl)
    out, _l, rc, err = native.run('route_kp', workers=ws, key=K, pool_size=3, hint=hint, router='sticky' if 'Sticky' in router else 'key_persistent', timeout=30)
    if rc != 0:
        raise RuntimeError('native route_kp failed: ' + err[-300:])
    d = dict(x.split('~', 1) for x in out['out'].split(';'))
    res = d.pop('res')
    books = {}
    for k, v in d.items():
        q, c, p = v.split('/')
        books[int(k[1:])] = ([tuple(map(int, x.split(':'))) for x in q.split('+') if x], [int(x) for x in c.split('+') if x], {int(a): int(b) for a, b in (x.split(':') for x in p.split('+') if x)})
    return res, books


def parse_books(v):
    q, c, p = v.split('/')
    return ([tuple(map(int, x.split(':'))) for x in q.split('+') if x], [int(x) for x in c.split('+') if x], {int(a): int(b) for a, b in (x.split(':') for x in p.split('+') if x)})


def dead_window(router):
    """two jobs of one key routed while worker 0 is dead but not yet replaced, then the replacement: never two of them in flight on two workers, and the
    first submitted runs first"""
    out, _l, rc, err = native.run('dead_window', router='sticky' if 'Sticky' in router else 'key_persistent', timeout=30)
    if rc != 0:
        raise RuntimeError('native dead_window failed: ' + err[-300:])
    bad = []
    steps = dict(x.split('~', 1) for x in out['out'].split(';'))
    for label in ('first', 'second', 'replaced'):
        w0, w1 = [parse_books(v) for v in steps[label].split('|')]
        holders = [i for i, (q, c, p) in enumerate((w0, w1)) if K in c or K in [k for k, _ in q]]
        flying = [i for i, (q, c, p) in enumerate((w0, w1)) if K in c]
        if len(flying) > 1:
            bad.append('%s: key %d is in flight on workers %s at the same time' % (label, K, flying))
        if len(holders) > 1:
            bad.append('%s: key %d is pending on workers %s' % (label, K, holders))
    # submission order: the job retained for the replacement (message 100) stays in front of the one submitted after it (101)
    w0 = parse_books(steps['second'].split('|')[0])
    ids = [m for k, m in w0[0] if k == K]
    if ids and ids != sorted(ids):
        bad.append('second: the jobs of key %d wait in the order %s on worker 0, submitted as %s' % (K, ids, sorted(ids)))
    w0 = parse_books(steps['replaced'].split('|')[0])
    if K in w0[1] and [m for k, m in w0[0] if k == K] == [100]:
        bad.append('replaced: the replacement was handed job 101 while the older job 100 of the same key still waits')
    return bad, steps


def evaluate(pl, hint, router='KeyPersistentRouting'):
    res, after = run_native(pl, hint, router)
    before = {w: (list(q), list(c)) for w, (q, c) in pl}
    bad = []
    for key in (K, OTHER):
        holders = [w for w, (q, c, p) in after.items() if key in [x[0] for x in q] or key in c]
        if len(holders) > 1:
            bad.append('key %d is pending on workers %s' % (key, holders))
    for w, (q, c, p) in after.items():
        cnt = {}
        for x in [k for k, _ in q] + c:
            cnt[x] = cnt.get(x, 0) + 1
        if cnt != p:
            bad.append('worker %d: pending table %s, jobs %s' % (w, p, cnt))
        if len(c) > 1:
            bad.append('worker %d has %d jobs in flight' % (w, len(c)))
    holder = next((w for w, (q, c) in before.items() if K in q or K in c), None)
    if res == 'handled':
        got = [w for w, (q, c, p) in after.items() if any(m == 100 for _, m in q) or (K in c and K not in before[w][1] and not any(m == 100 for _, m in q))]
        if holder is not None and not any(m == 100 for _, m in after[holder][0]) and not (K in after[holder][1] and K not in before[holder][1]):
            bad.append('the new job did not go to worker %d that holds its key: %s' % (holder, after))
        if holder is not None:
            ids = [m for k, m in after[holder][0] if k == K]
            if ids and ids[-1] != 100 and 100 in ids:
                bad.append('the new job is not behind the older jobs of its key: %s' % ids)
    elif res == 'backlog':
        if holder is not None:
            bad.append('job came back although worker %d holds its key' % holder)
    else:
        bad.append('route_message returned %s' % res)
    return bad, {'res': res, 'after': after}


def replay(pl, hint, router='KeyPersistentRouting'):
    bad, obs = evaluate(pl, hint, router)
    wb, steps = dead_window(router)
    bad += ['dead-worker window: ' + x for x in wb]
    return {'replayed': bool(bad), 'detail': 'native %s route of key %d on %s hint %s -> %s ; dead-worker window %s ; violated %s' % (router, K, pl, hint, obs, steps, bad),
            'replay': {'which': 'exclusive', 'pool': [[w, [list(q), list(c)]] for w, (q, c) in pl], 'hint': hint, 'router': router}}


def battery():
    bad = []
    for r in ('KeyPersistentRouting', 'StickyQueuerRouting'):
        bad += ['%s: %s' % (r, x) for x in dead_window(r)[0]]
    return bad, 2
