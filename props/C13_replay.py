"""native replay for C13: one bookkeeping operation of a real worker record / a real FactoryState (scripted router, FIFO queue) from the explicit
pre-state of the counterexample; conservation is re-evaluated on what the real code did"""
import native


def parse(out):
    d = dict(x.split(':', 1) for x in out['out'].split(';'))
    ids = lambda s: [int(x) for x in s.split('+') if x]
    return {'queue': ids(d.get('queue', '')), 'handed': ids(d.get('handed', d.get('routed', ''))), 'discards': [(x.split(':')[0], int(x.split(':')[1])) for x in d.get('discards', '').split('+') if x],
            'curr': int(d['curr']) if 'curr' in d else None}


def conservation(before, incoming, obs, expired_ids, extra=None):
    bad = []
    dj = [m for _, m in obs['discards']]
    if sorted(obs['queue'] + obs['handed'] + dj) != sorted(before + incoming):
        bad.append('every_job_has_exactly_one_fate: before %s + %s -> kept %s, handed %s, discarded %s' % (before, incoming, obs['queue'], obs['handed'], obs['discards']))
    if len(set(dj)) != len(dj) or set(dj) & set(obs['handed']) or set(dj) & set(obs['queue']):
        bad.append('no_job_discarded_twice_or_discarded_and_handed')
    for r, m in obs['discards']:
        if r == 'TtlExpired' and m not in expired_ids:
            bad.append('ttl_discard_only_for_expired')
    if set(obs['handed']) & set(expired_ids):
        bad.append('expired_job_is_not_handed_over')
    return bad


def replay_worker(rp, dead, expired):
    out, _, rc, err = native.run('worker_fates', queue=rp['queue'], expired=expired, curr=rp['curr'], op=rp['op'], mode=rp['mode'], limit=rp['limit'], dead=1 if dead else 0, timeout=30)
    if rc != 0:
        raise RuntimeError('native worker_fates failed: ' + err[-300:])
    obs = parse(out)
    before = list(range(len(rp['queue'])))
    incoming = [100] if rp['op'].startswith('enqueue') else []
    bad = conservation(before, incoming, obs, [i for i, e in enumerate(expired) if e])
    if obs['curr'] is not None and obs['curr'] > 1:
        bad.append('one_job_in_flight_at_most')
    # a live replacement with jobs waiting in the slot's own queue is given the next one (the hand-over cannot be refused: the new worker is alive)
    if rp['op'] == 'replace' and not dead and obs['queue'] and not obs['handed']:
        bad.append('a_replacement_with_waiting_jobs_is_offered_the_next_one')
    return {'replayed': bool(bad), 'detail': 'native worker record %s expired=%s dead=%s -> %s ; violated %s' % (rp, expired, dead, obs, bad), 'replay': {'which': 'worker', 'rp': rp, 'dead': dead, 'expired': expired}}


def replay_factory(args):
    out, _, rc, err = native.run('factory_step', timeout=30, **args)
    if rc != 0:
        raise RuntimeError('native factory_step failed: ' + err[-300:])
    obs = parse(out)
    before = list(args['queue'])
    incoming = [100] if args['op'] in ('dispatch', 'maybe_enqueue') else []
    expired_ids = [i for i, e in enumerate(args['expired']) if e] + ([100] if args['incoming_expired'] else [])
    bad = conservation(before, incoming, obs, expired_ids)
    kept_old = [x for x in obs['queue'] if x in before]
    if kept_old != [x for x in before if x in kept_old]:
        bad.append('backlog_keeps_its_order')
    if args['draining'] and args['op'] == 'dispatch' and (obs['handed'] or 100 in obs['queue']):
        bad.append('draining_factory_refuses_new_jobs')
    for r, m in obs['discards']:
        if r == 'Shutdown' and not args['draining']:
            bad.append('shutdown_discard_only_while_draining')
        if r == 'Loadshed' and args['mode'] == 'None':
            bad.append('loadshed_only_with_a_limit')
    if args['mode'] != 'None' and len(obs['queue']) > args['limit']:
        bad.append('backlog_within_limit')
    return {'replayed': bool(bad), 'detail': 'native FactoryState %s -> %s ; violated %s' % (args, obs, bad), 'replay': {'which': 'factory', 'args': args}}


def replay_finished(wq, draining, fq):
    # the worker actor alive, then already stopped (its mailbox refuses the hand-over; the factory has not been told yet)
    r = replay_finished_on(wq, draining, fq, False)
    if not r['replayed']:
        r2 = replay_finished_on(wq, draining, fq, True)
        if r2['replayed']:
            return r2
        r['detail'] += ' ; with the worker already stopped: ' + r2['detail']
    return r


def replay_finished_on(wq, draining, fq, closed):
    out, _, rc, err = native.run('factory_finished', queue=[5 + (i % 2) for i in range(wq)], draining=1 if draining else 0, fq=fq, closed=1 if closed else 0, timeout=30)
    if rc != 0:
        raise RuntimeError('native factory_finished failed: ' + err[-300:])
    d = dict(x.split(':', 1) for x in out['out'].split(';'))
    ids = lambda s_: [int(x) for x in s_.split('+') if x]
    obs = {'inpool': d['inpool'] == '1', 'wqueue': ids(d['wqueue']), 'fqueue': ids(d['fqueue']), 'handled': ids(d['handled']), 'routed': ids(d['routed']),
           'discards': [(x.split(':')[0], int(x.split(':')[1])) for x in d['discards'].split('+') if x], 'worker_alive': d['worker_alive'] == '1'}
    before = list(range(wq)) + [50 + i for i in range(fq)]
    bad = []
    after = obs['wqueue'] + obs['fqueue'] + obs['handled'] + obs['routed'] + [m for _, m in obs['discards']]
    if sorted(after) != sorted(before):
        bad.append('every_job_has_exactly_one_fate: before %s -> worker queue %s, backlog %s, really handled by the worker %s, routed %s, discarded %s' % (
            before, obs['wqueue'], obs['fqueue'], obs['handled'], obs['routed'], obs['discards']))
    if not obs['inpool'] and not draining:
        bad.append('only_a_draining_worker_is_retired')
    if obs['inpool'] != obs['worker_alive'] and not closed:
        bad.append('retired_iff_removed_from_the_pool')
    return {'replayed': bool(bad), 'detail': 'native worker_finished_job(worker queue %d, draining %s, backlog %d%s) -> %s ; violated %s' % (wq, draining, fq, ', worker already stopped' if closed else '', obs, bad),
            'replay': {'which': 'finished', 'wq': wq, 'draining': draining, 'fq': fq}}


def replay_file(rp):
    if rp['which'] == 'finished':
        return replay_finished(rp['wq'], rp['draining'], rp['fq'])
    if rp['which'] == 'worker':
        return replay_worker(rp['rp'], rp['dead'], rp['expired'])
    return replay_factory(rp['args'])
