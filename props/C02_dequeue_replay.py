"""native side of the C02 dequeue slice: real actor, real sender threads; every accepted message handled at most once (exactly once when the actor is drained),
per-sender order preserved, nothing handled that was refused or never sent"""
import native


def run_native(threads, msgs, yields, end, tl, supevts=0, serialized=0):
    out, _, rc, err = native.run('dequeue', threads=threads, msgs=msgs, yields=yields, end=end, tl=1 if tl else 0, supevts=supevts, serialized=serialized, timeout=90)
    if rc != 0:
        raise RuntimeError('native dequeue failed: ' + err[-300:])
    f = lambda k: [int(x) for x in out.get(k, '').split(',') if x]
    return {'terms': [x for x in out.get('terms', '').split(',') if x], 'ended': out.get('ended') == '1', 'sent_ok': f('sent_ok'), 'sent_err': f('sent_err'), 'handled': f('handled')}


def violated(o, end):
    bad = []
    h = o['handled']
    if len(set(h)) != len(h):
        bad.append('a_message_is_handled_at_most_once')
    if not set(h) <= set(o['sent_ok']):
        bad.append('only_accepted_messages_are_handled')
    for t in {x // 1000 for x in h}:
        mine = [x for x in h if x // 1000 == t]
        if mine != sorted(mine):
            bad.append('per_sender_order_is_preserved')
            break
    if end in ('drain', 'none') and o['ended'] and end == 'drain' and sorted(h) != sorted(o['sent_ok']):
        bad.append('a_drained_actor_handled_every_accepted_message_exactly_once')
    if o['ended'] and len(o['terms']) != 1:
        bad.append('exactly_one_terminal_event')
    if end == 'drain' and o['ended'] and o['terms'] != ['terminated:Drained']:
        bad.append('a_drained_actor_stops_by_itself_exactly_once_with_reason_Drained')
    if end != 'drain' and 'terminated:Drained' in o['terms']:
        bad.append('only_a_drain_produces_the_reason_Drained')
    if end == 'drain' and (not o['ended'] or o['sent_err']):
        bad.append('drain_after_the_senders_finishes_with_every_send_accepted')
    return bad


def marker_window(tl):
    """the last in-flight sender emits the drain marker before the drainer has published Draining; the loop dequeues message and marker in that window"""
    out, _, rc, err = native.run('marker_window', tl=1 if tl else 0, timeout=60)
    if rc != 0:
        raise RuntimeError('native marker_window failed: ' + err[-300:])
    bad = []
    if out.get('sent') != '1' or out.get('drained') != '1':
        bad.append('the_accepted_send_and_the_drain_both_report_ok')
    if out.get('ended') != '1' or out.get('status') != '6':
        bad.append('a_drain_never_leaves_the_actor_running')
    if out.get('handled') != '7':
        bad.append('the_accepted_message_is_handled_exactly_once')
    if out.get('ended') == '1' and out.get('terms') != 'terminated:Drained':
        bad.append('a_drained_actor_stops_by_itself_exactly_once_with_reason_Drained')
    if out.get('later_send_refused') != '1':
        bad.append('sends_after_the_drain_are_refused')
    return {'scenario': 'marker_window', 'thread_local': tl, 'order': out.get('order'), 'status': out.get('status'), 'terms': out.get('terms'), 'handled': out.get('handled'), 'violated': bad}


def battery(tl_too=True):
    """run on every check (translator validation of the dequeue slice and the concurrent enqueue slice on the whole actor)"""
    res = []
    for tl in ((False, True) if tl_too else (False,)):
        for (threads, msgs, yields, end) in ((1, 6, 0, 'drain'), (3, 5, 1, 'drain'), (2, 300, 1, 'stop'), (2, 300, 2, 'kill')):
            o = run_native(threads, msgs, yields, end, tl)
            res.append({'threads': threads, 'msgs': msgs, 'yields': yields, 'end': end, 'thread_local': tl, 'supervision_events': 0, 'handled': len(o['handled']), 'accepted': len(o['sent_ok']), 'terms': o['terms'], 'violated': violated(o, end)})
        # half of the messages arrive in serialized form (as from a remote node) and decode: they are handled like the others
        o = run_native(2, 6, 0, 'drain', tl, serialized=1)
        res.append({'threads': 2, 'msgs': 6, 'yields': 0, 'end': 'drain', 'thread_local': tl, 'supervision_events': 0, 'every_second_message_serialized': True, 'handled': len(o['handled']),
                    'accepted': len(o['sent_ok']), 'terms': o['terms'], 'violated': violated(o, 'drain')})
        res.append(marker_window(tl))
        # a supervisor under load: messages and supervision events arrive from two OS threads at once, then the actor is drained
        o = run_native(1, 4000, 0, 'drain', tl, supevts=20000)
        res.append({'threads': 1, 'msgs': 4000, 'yields': 0, 'end': 'drain', 'thread_local': tl, 'supervision_events': 20000, 'handled': len(o['handled']), 'accepted': len(o['sent_ok']),
                    'terms': o['terms'], 'violated': violated(o, 'drain')})
    return res


def replay(tl=False):
    res = [r for r in battery(tl_too=True) if r['thread_local'] == tl or True]
    bad = [r for r in res if r['violated']]
    return {'replayed': bool(bad), 'detail': 'native dequeue battery (real actor, sender threads): %s' % (bad or res),
            'replay': {'scenario': 'dequeue', 'prop': 'C02', 'which': 'dequeue'}}


def replay_from_json(d):
    r = replay()
    print(r['detail'])
    return 1 if r['replayed'] else 0
