"""native replay for C09: the real call functions against a scripted callee on tokio's paused clock; a fixed battery per function"""
import native


def run_native(which, mode, timeout, dead=False, mode2='reply:8'):
    out, _, rc, err = native.run('rpc', which=which, mode=mode, mode2=mode2, timeout_ms=timeout, dead=1 if dead else 0, timeout=30)
    if rc != 0:
        raise RuntimeError('native rpc replay failed: ' + err[-300:])
    log = [x for x in out.get('log', '').split(',') if x]
    res = [x for x in log if x.startswith('result:')]
    r, t = res[0][len('result:'):].rsplit('@', 1) if res else ('none', '-1')
    return log, r, int(t)


def replay_multi(args):
    bad, obs = [], {}
    for tag, m1, m2, tmo, want in (('both_reply', 'reply:7', 'reply:8', 100, 'Success:7|Success:8'), ('first_late', 'late:50', 'reply:8', 100, 'Success:9|Success:8'),
                                   ('second_late', 'reply:7', 'late:50', 100, 'Success:7|Success:9'), ('first_drops', 'drop', 'reply:8', None, 'SenderError|Success:8'),
                                   ('second_drops', 'reply:7', 'drop', 100, 'Success:7|SenderError'), ('first_holds', 'hold', 'reply:8', 100, 'Timeout|Success:8'),
                                   ('second_holds', 'reply:7', 'hold', 100, 'Success:7|Timeout'),
                                   # a target that is already gone: the send itself fails, nobody's reply may be attributed to it
                                   ('first_dead', 'reply:7', 'reply:8', 100, 'SendErr')):
        log, r, t = run_native('multi', m1, tmo, tag == 'first_dead', m2)
        obs[tag] = log
        if r != want:
            bad.append('%s: result %s, expected %s' % (tag, r, want))
        if tmo is not None and t > tmo:
            bad.append('%s: answered at %d ms, expected by %d ms' % (tag, t, tmo))
    return {'replayed': bool(bad), 'detail': 'native multi_call scenarios: %s ; observations %s' % (bad, obs), 'replay': {'which': 'multi', 'args': args}}


def replay(which, args):
    if which == 'multi':
        return replay_multi(args)
    bad, obs = [], {}
    if which == 'reply_port':
        # RpcReplyPort::send is exercised by every successful reply below
        which_native = 'call'
    else:
        which_native = which
    ok_res = 'Success:forwarded' if which_native == 'forward' else 'Success:7'

    def case(tag, mode, tmo, dead, want_res, want_time=None, extra=None):
        log, r, t = run_native(which_native, mode, tmo, dead)
        obs[tag] = log
        if r not in want_res:
            bad.append('%s: result %s, expected %s' % (tag, r, '/'.join(want_res)))
        if want_time is not None and t > want_time:
            bad.append('%s: answered at %d ms, expected by %d ms' % (tag, t, want_time))
        if tmo is not None and not dead and ('port_timeout:%d' % tmo) not in log:
            bad.append('%s: the reply port does not carry the caller\'s timeout: %s' % (tag, [x for x in log if x.startswith('port_timeout')]))
        if tmo is None and not dead and 'port_timeout:-1' not in log:
            bad.append('%s: the reply port carries a timeout the caller did not give' % tag)
        fw = [x for x in log if x.startswith('forwarded:')]
        if which_native == 'forward':
            if r == 'Success:forwarded' and fw not in (['forwarded:target:1007'], ['forwarded:target:1009']):
                bad.append('%s: forward target did not receive exactly the mapped reply once: %s' % (tag, fw))
            if not r.startswith('Success') and fw:
                bad.append('%s: something was forwarded without a reply: %s' % (tag, fw))
        elif fw:
            bad.append('%s: unexpected forward %s' % (tag, fw))
    case('reply', 'reply:7', 100, False, [ok_res], 0)
    case('reply_no_timeout', 'reply:7', None, False, [ok_res], 0)
    case('drop', 'drop', 100, False, ['SenderError'], 0)
    case('drop_no_timeout', 'drop', None, False, ['SenderError'], 0)
    case('hold', 'hold', 100, False, ['Timeout'], 100)
    case('late_within', 'late:50', 100, False, ['Success:9' if which_native != 'forward' else 'Success:forward_failed', 'Success:forwarded'], 50)
    case('late_beyond', 'late:150', 100, False, ['Timeout'], 100)
    case('dead_callee', 'reply:7', 100, True, ['SendErr'], 0)
    return {'replayed': bool(bad), 'detail': 'native %s scenarios: %s ; observations %s' % (which_native, bad, obs), 'replay': {'which': which, 'args': args}}
