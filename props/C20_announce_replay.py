"""native replay for the C20 announce slice: one lifecycle / group event through the real handle_supervisor_evt of a session, real local actors"""
import native


def run_native(advertised, remotable, event):
    out, _l, rc, err = native.run('session_announce', advertised=list(advertised), remotable=[1 if x else 0 for x in remotable], event=event, timeout=30)
    if rc != 0:
        raise RuntimeError('native session_announce failed: ' + err[-300:])
    d = dict(x.split('~', 1) for x in out['out'].split(';'))
    return {'frames': [x for x in d['frames'].split('|') if x], 'advertised': sorted(int(x) for x in d['advertised'].split('+') if x), 'proxies': int(d['proxies'])}


def evaluate(advertised, remotable, event):
    o = run_native(advertised, remotable, event)
    kind = next(k for k in ('Spawn', 'Terminate', 'Join', 'Leave') if event.startswith(k))
    who = [int(c) for c in event[len(kind):] if c.isdigit()]
    remk = [k for k in who if remotable[k - 1]]
    bad = []
    if kind == 'Spawn':
        want_adv, want_fr = sorted(set(advertised) | set(remk)), ['Spawn/#%d:name-a%d' % (k, k) for k in remk]
    elif kind == 'Terminate':
        want_adv, want_fr = sorted(set(advertised) - set(remk)), ['Terminate/#%d' % k for k in remk]
    else:
        want_adv = sorted(advertised)
        want_fr = ['%s/the-scope/the-group/%s' % ('PgJoin' if kind == 'Join' else 'PgLeave', '+'.join('#%d:name-a%d' % (k, k) for k in remk))] if remk else []
    if o['advertised'] != want_adv:
        bad.append('%s: advertised set %s, expected %s' % (event, o['advertised'], want_adv))
    if o['frames'] != want_fr:
        bad.append('%s: frames %s, expected %s' % (event, o['frames'], want_fr))
    if o['proxies'] != 0:
        bad.append('%s: proxy table changed' % event)
    return bad, o


def replay(rp):
    bad, o = evaluate(rp['advertised'], rp['remotable'], rp['event'])
    return {'replayed': bool(bad), 'detail': 'native handle_supervisor_evt %s -> %s ; violated %s' % (rp, o, bad), 'replay': {'which': 'announce', 'rp': rp}}


def battery():
    bad, n = [], 0
    for adv in ([], [1], [1, 2]):
        for rem in ((True, True), (True, False), (False, True), (False, False)):
            for ev in ('Spawn1', 'Spawn2', 'Terminate1', 'Terminate2', 'Join-', 'Join12', 'Join21', 'Leave1', 'Leave12'):
                b, o = evaluate(adv, rem, ev)
                n += 1
                bad += ['adv %s rem %s: %s' % (adv, rem, x) for x in b]
    r = replay_child()
    if r['replayed']:
        bad.append(r['detail'])
    return bad, n + 6


def replay_child(rp=None):
    """the session's reaction to the exit / failure of its transport actor and of a proxy, on the real handler"""
    bad = []
    obs = {}
    for child in ('tcp', 'proxy', 'stranger'):
        for ev in ('ActorTerminated', 'ActorFailed'):
            out, _l, rc, err = native.run('session_child_exit', child=child, event=ev, timeout=30)
            if rc != 0:
                raise RuntimeError('native session_child_exit failed: ' + err[-300:])
            d = dict(x.split('~', 1) for x in out['out'].split(';'))
            obs['%s/%s' % (child, ev)] = d
            if child == 'tcp' and d.get('session_stopped') != '1':
                bad.append('%s of the transport actor: the session keeps running' % ev)
            if child == 'stranger' and (d.get('session_stopped') != '0' or d.get('table') != '77:old,78:old'):
                bad.append('%s of an unknown child changed something: %s' % (ev, d))
            if child == 'proxy' and ev == 'ActorTerminated' and (d.get('table') != '78:old' or d.get('old77_running') != '0' or d.get('session_stopped') != '0'):
                bad.append('an exited proxy must leave the table and be stopped: %s' % d)
            if child == 'proxy' and ev == 'ActorFailed' and (d.get('table') != '77:new,78:old' or d.get('old77_running') != '0' or d.get('session_stopped') != '0'):
                bad.append('a failed proxy must be replaced by a fresh one for the same pid: %s' % d)
    return {'replayed': bool(bad), 'detail': 'native handle_supervisor_evt on child exits: %s' % (bad or obs), 'replay': {'which': 'child_exit'}}
