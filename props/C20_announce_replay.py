"""native replay for the C20 announce slice: one lifecycle / group event through the real handle_supervisor_evt of a session, real local actors"""
import native


def run_native(advertised, remotable, event):
    out, _l, rc, err = native.run('session_announce', advertised=list(advertised), remotable=[1 if x else 0 for x in remotable], event=event, timeout=30)
    if rc != 0:
        raise RuntimeError('native session_announce failed: ' + err[-300:])
    d = dict(x.split('~', 1) for x in out['out'].split(';'))
    return {'frames': [x for x in d['frames'].split('|') if x], 'advertised': sorted(int(x) for x in d['advertised'].split('+') if x), 'proxies': int(d['proxies'])}


def evaluate(advertised, remotable, event):
    o = run_native(advertised, remotable, event)
    kind = next(k for k in ('Spawn', 'Terminate', 'Join', 'Leave') if event.startswith(k))
    who = [int(c) for c in event[len(kind):] if c.isdigit()]
    remk = [k for k in who if remotable[k - 1]]
    bad = []
    if kind == 'Spawn':
        want_adv, want_fr = sorted(set(advertised) | set(remk)), ['Spawn/#%d:name-a%d' % (k, k) for k in remk]
    elif kind == 'Terminate':
        want_adv, want_fr = sorted(set(advertised) - set(remk)), ['Terminate/#%d' % k for k in remk]
    else:
        want_adv = sorted(advertised)
        want_fr = ['%s/the-scope/the-group/%s' % ('PgJoin' if kind == 'Join' else 'PgLeave', '+'.join('#%d:name-a%d' % (k, k) for k in remk))] if remk else []
    if o['advertised'] != want_adv:
        bad.append('%s: advertised set %s, expected %s' % (event, o['advertised'], want_adv))
    if o['frames'] != want_fr:
        bad.append('%s: frames %s, expected %s' % (event, o['frames'], want_fr))
    if o['proxies'] != 0:
        bad.append('%s: proxy table changed' % event)
    return bad, o


def replay(rp):
    bad, o = evaluate(rp['advertised'], rp['remotable'], rp['event'])
    return {'replayed': bool(bad), 'detail': 'native handle_supervisor_evt %s -> %s ; violated %s' % (rp, o, bad), 'replay': {'which': 'announce', 'rp': rp}}


def battery():
    bad, n = [], 0
    for adv in ([], [1], [1, 2]):
        for rem in ((True, True), (True, False), (False, True), (False, False)):
            for ev in ('Spawn1', 'Spawn2', 'Terminate1', 'Terminate2', 'Join-', 'Join12', 'Join21', 'Leave1', 'Leave12'):
                b, o = evaluate(adv, rem, ev)
                n += 1
                bad += ['adv %s rem %s: %s' % (adv, rem, x) for x in b]
    return bad, n
